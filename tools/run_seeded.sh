#!/bin/bash
# Sensitivity regression: apply every seeded change of /verif/seeded to /repo in turn, run the
# quick tier of the property it breaks (plus any extra checks given as arguments), undo.
# Writes seeded/RESULTS.md. /repo must be clean.
set -u
cd "$(dirname "$0")/.."
if ! git -C /repo diff --quiet; then echo "/repo is dirty, refusing"; exit 2; fi
OUT=seeded/RESULTS.md
echo "| seeded change | check | exit | first violation class |" > $OUT
echo "|---|---|---|---|" >> $OUT
fail=0
for d in seeded/C*/; do
  id=$(basename $d); prop=$(python3 -c "import json,sys; print(json.load(open(sys.argv[1]))[\"breaks_property\"])" $d/meta.json)
  # changes judged to lie outside the property as stated are run and reported, never counted
  status=$(python3 -c "import json,sys; print(json.load(open(sys.argv[1])).get(\"status\",\"\"))" $d/meta.json)
  git -C /repo apply "$PWD/$d/patch.diff" || { echo "$id: patch does not apply"; fail=1; continue; }
  for c in $prop "$@"; do
    out=$(timeout 1500 ./check $c quick 2>&1); rc=$?
    cls=$(echo "$out" | grep -E '^violation' | head -1 | sed 's/.*class=\([^ ]*\).*/\1/')
    echo "| $id | $c quick | $rc | $cls${status:+ ($status)} |" >> $OUT
    echo "$id $c exit=$rc $cls $status"
    [ "$c" = "$prop" ] && [ $rc -ne 1 ] && [ -z "$status" ] && fail=1
  done
  git -C /repo checkout -q -- .
done
rm -rf replays
exit $fail
