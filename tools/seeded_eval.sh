#!/bin/bash
# Confirm a seeded change and run checks against it.
#   tools/seeded_eval.sh <dir containing patch.diff + demo.rs|demo.sh> <scratch worktree> <tier> <check ids...>
# 1. in the scratch worktree: patch applies, test suite passes, demo fails; without patch demo passes
# 2. apply to /repo, run the given checks, undo
set -u
D="$1"; WT="$2"; TIER="$3"; shift 3
export CARGO_NET_OFFLINE=true CARGO_TARGET_DIR="$WT/target"
cd "$WT" || exit 2
git checkout -q -- . ; rm -f tests/demo_mut.rs
run_demo() {
  if [ -f "$D/demo.sh" ]; then
    cargo build --release --offline -q -p e57-from-xyz -p e57-to-xyz -p e57-check-crc -p e57-extract-xml -p e57-unpack 2>/dev/null
    bash "$D/demo.sh" >/dev/null 2>&1
  else
    cp "$D/demo.rs" tests/demo_mut.rs
    local flags=""
    grep -q "e57::verif" "$D/demo.rs" && flags="--cfg e57_verif"
    RUSTFLAGS="$flags" timeout 300 cargo test --offline -q --test demo_mut >/dev/null 2>&1
    local rc=$?
    rm -f tests/demo_mut.rs
    return $rc
  fi
}
run_demo; base=$?
git apply "$D/patch.diff" || { echo "CONFIRM: patch does not apply"; exit 2; }
suite=$(cargo test --workspace --no-fail-fast --offline 2>&1 | grep -E "^test result:" | awk '{p+=$4; f+=$6} END {print p" passed "f" failed"}')
run_demo; mut=$?
git checkout -q -- . ; rm -f tests/demo_mut.rs
echo "CONFIRM: demo without patch exit=$base (want 0); suite with patch: $suite (want 85 passed 0 failed); demo with patch exit=$mut (want != 0)"
# 2. checks against /repo
cd /verif
if ! git -C /repo diff --quiet; then echo "/repo is dirty, refusing"; exit 2; fi
git -C /repo apply "$D/patch.diff" || exit 2
for id in "$@"; do
  out=$(timeout 1500 ./check $id $TIER 2>&1)
  rc=$?
  echo "CHECK $id $TIER exit=$rc :: $(echo "$out" | grep -E '^violation' | head -2 | cut -c1-300 | tr '\n' '|') $(echo "$out" | grep -E '^summary' | cut -c1-200)"
done
git -C /repo checkout -q -- .
rm -rf /verif/replays
