#!/usr/bin/env python3
"""Regenerates /verif/MANIFEST.json from the table below (kept in one place so that the
manifest stays valid while checks are added)."""
import json, os, sys
HERE = os.path.dirname(os.path.dirname(os.path.abspath(__file__)))

NA_PURE = {
    "C04": "pure function of metadata values through in-memory string builders/parsers; no schedule, fault, crash point or history to simulate (DESIGN.md §4)",
    "C12": "pure bit codec over in-memory buffers; no schedule, fault or history in it (DESIGN.md §4); packet-cut dimension is exercised incidentally by C03/C01",
    "C13": "pure arithmetic on (value, limits, type); nothing for a simulator to schedule or fail (DESIGN.md §4)",
    "C14": "pure fold over the values passed to add_point; no device, fault or history dimension (DESIGN.md §4)",
    "C18": "pure function of the XML text (element lookup); no schedule, fault or history dimension (DESIGN.md §4)",
}

# id -> (built, level category, level text, level note, technique, design ref)
SIM = "deterministic simulation with fault injection: "
CHECKS = {
    "C01": (True, "exploration",
            "Seeded search over writer programs (prototypes over all record types and widths 0..64 bits, blobs/images/other clouds placing the section at every 4-byte residue modulo 1020, packet capacity capped by a knob or left at ~64 KiB) executed on E57Writer over a simulated device with seeded short writes, reopened through E57Reader on a device with seeded short reads; raw iteration compared bit-exactly with a scene model. Sampling, not proof. Every 64th run adds a cloud of 40 000..140 000 points with 3-5 different odd bit widths written at the library's own packet capacity.",
            "Trusts the scene model and SimDisk; device fault-free apart from short transfers; prototypes follow the documented rules with at least one sized record.",
            SIM + "seeded API-call programs x section placement x device chunk schedules x packet-capacity knob vs. scene model", "DESIGN.md §5 C01"),
    "C02": (True, "exploration",
            "Every image finalized in the C01/C06 program space (metadata strings from the full XML token pool) is judged by an independent codec (refcodec) written from the format description and calibrated at start-up on 19 foreign files: fsck rules, then decode == points, blobs and metadata handed to the writer. Every 512th program has its coordinate metadata solved (CRC-32C is affine over GF(2)) so that a page version reaches the device with the checksum of its previous version, or 0 / 0xFFFFFFFF for a new page. Every 512th program has an XML section of 270..420 KB.",
            "Trusts refcodec (own page layer, bitwise CRC-32C, own XML parser; roxmltree as second opinion) and its calibration on E57RefImpl/libE57Format/las2e57 files.",
            SIM + "seeded writer programs on a simulated device, judged by an independent fsck/decoder", "DESIGN.md §5 C02"),
    "C06": (True, "exploration",
            "Seeded writer programs (points are compared as in C01 as well) with blob / image / mask lengths swept over every residue modulo 1020 and 4, fed through source pipes with seeded short reads, read back through E57Reader::blob into sinks with seeded short writes; count, length and bytes compared with the scene model, per image descriptor. Every fourth run contains one add_blob whose source reports an error after k bytes (all residues modulo 4): the call must fail and everything added afterwards must read back.",
            "Trusts the scene model, SimDisk and SimPipe; the device is fault-free apart from short transfers, the only fault is the error of one blob source.",
            SIM + "seeded writer programs x blob length/placement residues x source/sink pipe chunk schedules vs. scene model", "DESIGN.md §5 C06"),
    "C11": (True, "exploration",
            "Seeded search over page-layer histories: all PagedWriter histories of length <= 3 over a 22-op boundary alphabet (writes of non-zero, all-zero and all-0xFF data) plus random histories up to length 40, each under a seeded short-transfer schedule of the simulated device, checked operation by operation against a byte-vector model; then PagedReader histories over the result. Sampling, not proof.",
            "Trusts the byte-vector model, the bitwise CRC-32C in refcodec and SimDisk's File semantics; device fault-free apart from short transfers.",
            SIM + "seeded operation histories over a simulated device with short-transfer schedules vs. reference model", "DESIGN.md §5 C11"),
    "C15": (True, "fault_enumeration",
            "Per sampled writer program the crash space is enumerated completely: every prefix of the recorded device write log x 19+ torn-write cut positions, XML end placed on and next to page boundaries, metadata-only files and transformers that edit, append to or shorten the XML are part of the program space; drop-without-finalize after every call prefix (incl. abandoned sub-writers), failing XML transformer, hard device error (and EINTR on seek/flush) at every operation inside finalize, a device pre-filled with an older complete file; each resulting image must be rejected by the reader or behave exactly like the completed file and pass refcodec's fsck. Programs are sampled by seed.",
            "Assumes writes reach the device in issue order and a torn write leaves a byte prefix.",
            SIM + "crash-point enumeration over the device write log (prefixes x torn cuts) plus drop/transformer/device-error points, reader as judge", "DESIGN.md §5 C15"),
    "C16": (True, "fault_enumeration",
            "Per sampled program the single-fault space is enumerated completely: for every operation of the fault-free device/pipe operation sequence of the writer program or of the read-everything reader session, and every flavour applicable to its kind (hard error of kind Other and of six other kinds, short-then-error, EINTR - on seeks and flushes too -, write returning 0, disk full), the session is re-run with exactly that fault - writer sessions three times: with a caller that stops at the failed call, one that gives up the item and goes on to the top-level finalize, and one that calls a failed finalize a second time; the API call in progress must return Err (EINTR may be absorbed with identical result, Drop swallows), finalize Ok implies the fault-free image, flushed (for callers that went on after a failure: a file that opens and returns everything the successful calls handed in); reader operations that met no failing device operation equal the fault-free session; some reader sessions cover payloads of 64 KiB or more; iterators are polled again after their first error. Plus chunking mode: K transfer schedules must give byte-identical images and identical read results.",
            "What a writer offers after a failed call is judged only through the top-level finalize; EINTR on every device operation kind (transfers, seeks, flushes); errors in Drop are swallowed by design.",
            SIM + "exhaustive single-fault injection over the recorded device-operation sequence, plus schedule-independence under seeded short transfers", "DESIGN.md §5 C16"),
    "C03": (True, "exploration",
            "Seeded scenes encoded by an independent, specification-driven producer (refcodec) under a seeded layout schedule (ragged per-stream packetisation with values straddling packets and empty streams, index/ignored packets before/between/after data packets, shuffled and padded sections, omitted optional type attributes, XML lexical variants); the producer's output must pass refcodec's own fsck and decode to the scene; the crate's reader on a simulated device with seeded short reads must return exactly the encoded values, counts and metadata. Run indices 0..19 read the bundled E57RefImpl / libE57Format / las2e57 files with the crate and with refcodec and compare. The producer also emits ignored packets up to 65536 bytes and index packets of higher levels over earlier index packets. Rare classes: prototypes of 255..703 attributes, runs of more than 1024 ignored packets between two data packets, and more than half a million points written attribute by attribute (one attribute far ahead of the others).",
            "Legal layout space is conservative (choices supported by the format description and by libE57Format-written files). Known finding F13b (all-constant prototype) listed.",
            SIM + "foreign-producer packetisation/interleaving schedule x device chunk schedules vs. scene model", "DESIGN.md §5 C03"),
    "C05": (True, "exploration",
            "Files from the writer and from the producer (all layouts), per cloud a subset (thorough: all 64) of the option vectors; raw and simple iteration on one reader over a simulated device, every third run with a damaged page; every simple point is compared with a reference view written from the documentation (tolerance on computed coordinates), counts and failure behaviour with the raw iterator. Producer files also carry what the crate's writer cannot store (wider invalid-state types, states outside the set, bit patterns above a declared maximum).",
            "Trusts the reference view; normalised values judged by (v-min)/(max-min) clamped, only for finite values and non-degenerate same-kind ranges (C13's corner cases stay n/a); direction-only conversions accept either documented reading; what the reader does with a point whose stored state lies outside its set is not judged.",
            SIM + "producer layout schedule x 2^6 option configurations x page damage vs. reference view and raw iterator", "DESIGN.md §5 C05"),
    "C07": (True, "fault_enumeration",
            "Every single-bit flip of every page of small files is enumerated (4 files quick, 24 thorough) and judged with all read entry points; sampled 1-3 bit flips, bursts <= 32 bits, overwrites, checksum-only and header-field damage and near-miss checksums (little-endian CRC-32C, complement, IEEE CRC-32) are applied before open, between two operations of a reader history, or at a device-operation instant inside a call; hand-made files with page sizes other than 1024 go through the static validate_crc/raw_xml; files beyond 1 MiB with an altered page more than 1030 pages in; iterators are polled again after their first error; every operation must fail or equal the pristine result, validate_crc fails iff a page is altered; the whole batch is re-executed by a second harness build with the crc32c feature and per-run digests must agree.",
            "Altered = independent bitwise CRC-32C of the payload differs from the stored checksum; header()/raw_xml on a damaged page 0 not judged.",
            SIM + "stored-byte fault enumeration (all single-bit flips) and seeded alterations at seeded instants x reader histories x both CRC back ends", "DESIGN.md §5 C07"),
    "C08": (True, "exploration",
            "Structure-aware corruption plans (header, XML numbers/attributes/structure incl. NaN/inf/extremes/DTD, section and packet headers, stream lengths, payload bits; sealed or unsealed; stale/misdirected pages, truncation, extension), applied before open or between operations, drive every reading entry point in child processes built with overflow checks; a panic (catch_unwind), abort or hang of the child is attributed to the run in flight. 16 (thorough: 64) run indices enumerate exhaustively the tree-level XML mutations of one rich file (every element dropped, every numeric leaf/attribute at each extreme text, every pair element dropped x numeric sibling extreme). Number texts include long unparseable strings with multi-byte characters at drawn byte positions; header mutations include consistent two-field lies (huge XML length covered by the stated file length).",
            "'All byte strings' is explored by mutation of valid files located with refcodec's map; sampling only.",
            SIM + "seeded media/producer corruption at seeded instants x all entry points, panic/abort oracle in child processes", "DESIGN.md §5 C08"),
    "C09": (True, "exploration",
            "Same corruption runs as C08 plus size-targeted plans; every API call (each iterator step) is metered: device bytes read, device operations (full-transfer schedules), peak allocation and allocation calls against budgets linear in the stored file size (peak memory: 4096 x file size + 64 MiB, derived from the API's own value and point types; sources capped at 192 KiB so that the budget stays below the allocation ceiling); iterators must not yield more than recordCount; 1 GiB allocation ceiling and 20 s watchdog as backstops.",
            "Budget constants separate linear from unbounded, they are not performance bounds; pure CPU loops are caught only by the watchdog.",
            SIM + "seeded corruption x step/allocation/yield budgets measured by the simulated device and a counting allocator", "DESIGN.md §5 C09"),
    "C10": (True, "exploration",
            "Seeded writer programs with injected calls that a scene model classifies as must-reject / must-accept / unspecified (tri-state), abandoned sub-writers, failing transformers, long malformed names and namespaces that differ from registered ones only in case or by one character; no call may panic, must-reject calls must return Err, and whenever all calls succeeded the image passes refcodec's fsck, decodes to exactly the accepted content and reads back through the crate's reader.",
            "Trusts the tri-state model of the documented rules; bounds not compared. Known finding F10 listed.",
            SIM + "seeded API-call programs incl. invalid calls and abandoned sub-writers vs. accept/reject model and read-back", "DESIGN.md §5 C10"),
    "C19": (True, "exploration",
            "read -> write -> read -> write -> read pipelines over simulated disks (sources: 19 bundled files, writer-made and producer-made files), every stage under its own chunk schedule, every write executed twice: copies must equal the original in content, the copy of the copy must equal the copy in content and bytes, double writes must be byte-identical. Every sixteenth generated source carries content beyond small-test scale: a cloud of several real 64 KiB packets with mixed odd bit widths (the copy is written at the library's own packet capacity) and an image payload of 64 KiB or more.",
            "Compared is what the writer API can express (see evidence assumptions).",
            SIM + "multi-stage copy pipelines over three simulated disks with independent chunk schedules; byte-determinism across schedules", "DESIGN.md §5 C19"),
    "C20": (True, "exploration",
            "Tool processes built from the workspace run in a private /dev/shm directory: XYZ -> e57-from-xyz -> [stored-byte fault] -> e57-check-crc / e57-to-xyz, and generator-made E57 files (intact or damaged) -> e57-check-crc / e57-extract-xml / e57-unpack; outputs compared with the inputs and with the library's own results. Every eighth run feeds e57-from-xyz an input of about 1.1 MiB whose line ends are swept over every position relative to the 1 MiB border of a block-wise reader. XYZ inputs also have lines of several KiB, colours drawn from {0,1} only, and a first line holding a single small integer; E57 inputs also have XML beyond 64 KiB made of multi-byte characters.",
            "Weakest fit of the technique: only the stored bytes between process stages are under the simulator's control; GUIDs from uuid are outside the observed outputs.",
            SIM + "process-level pipelines with seeded inputs and stored-byte faults between stages", "DESIGN.md §5 C20"),
    "C17": (True, "exploration",
            "Seeded histories of 2-12 read operations (early-terminated iterators, blobs into chunked sinks) on one open reader over writer-made files, optionally with static damage (unsealed pages / resealed section headers) and transient device faults (hard error, short-then-error, TimedOut/WouldBlock/Interrupted and other kinds; up to three, or one in every operation) placed inside operations; every sixteenth run is a long sequential scan of 64..130 pages followed by a short neighbour with a damaged page behind it; every operation is compared with the same operation on a freshly opened reader over the same bytes, a faulted one also with a fresh reader that meets the same fault at its first read of the same page. Some blob extractions have failing sinks; iterators are polled again after their first error and what they hand out then belongs to the result.",
            "Fresh-reader oracle; errors compared as is-Err; iterators driven to first Err/None.",
            SIM + "seeded reader histories with transient device faults and static damage vs. fresh-reader oracle", "DESIGN.md §5 C17"),
}

PENDING = {}

def main():
    props = [json.loads(l) for l in open(os.path.join(HERE, "properties.jsonl"))]
    checks, na = [], []
    for p in props:
        pid = p["id"]
        if pid in NA_PURE:
            na.append({"property_id": pid, "reason": NA_PURE[pid]})
            continue
        c = CHECKS.get(pid)
        if not c or not c[0]:
            na.append({"property_id": pid, "reason": PENDING.get(pid, "check not built yet in this tree (planned in DESIGN.md §5); not claimed until it runs")})
            continue
        _, cat, text, note, tech, ref = c
        checks.append({
            "property_id": pid,
            "quick_cmd": f"./check {pid} quick",
            "thorough_cmd": f"./check {pid} thorough",
            "evidence_file": f"/verif/evidence/{pid}.json",
            "replay_cmd_template": f"./check {pid} --replay {{path}}",
            "engine": "e57sim",
            "level_claimed": {"category": cat, "text": text, "design_ref": ref},
            "level_note": note,
            "technique": tech,
        })
    hooks_commits = [l.strip() for l in open(os.path.join(HERE, "tools", "hook_commits.txt")) if l.strip()]
    m = {
        "version": 1,
        "setup_cmd": "./check --build",
        "hooks": {
            "guard": "--cfg e57_verif",
            "enable": "RUSTFLAGS=\"--cfg e57_verif\" cargo build (set by ./check for the harness crate /verif/sim, which depends on e57 by path /repo)",
            "baseline_off_cmd": "cd /repo && cargo test --workspace --no-fail-fast --offline",
            "source_commits": hooks_commits,
            "add_only": True,
        },
        "engines": [{
            "name": "e57sim",
            "path": "/verif/sim",
            "serves_properties": [c["property_id"] for c in checks],
            "kind_free_text": "deterministic simulator: SimDisk/SimPipe device seam with seeded chunking and fault plans, seeded writer programs / reader histories / foreign-producer layouts, reference models, shrinking, replay files",
        }],
        "checks": checks,
        "not_applicable": na,
        "notes": "All checks: ./check <ID> quick|thorough; VERIF_SEED honoured (default 1). Exit 2 = harness error (never a violation). known_findings.json lists recorded and fixed defects.",
    }
    json.dump(m, open(os.path.join(HERE, "MANIFEST.json"), "w"), indent=1)
    print("MANIFEST.json written:", len(checks), "checks,", len(na), "not applicable")

if __name__ == "__main__":
    main()
