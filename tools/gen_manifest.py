#!/usr/bin/env python3
"""Regenerates /verif/MANIFEST.json from the table below (kept in one place so that the
manifest stays valid while checks are added)."""
import json, os, sys
HERE = os.path.dirname(os.path.dirname(os.path.abspath(__file__)))

NA_PURE = {
    "C04": "pure function of metadata values through in-memory string builders/parsers; no schedule, fault, crash point or history to simulate (DESIGN.md §4)",
    "C12": "pure bit codec over in-memory buffers; no schedule, fault or history in it (DESIGN.md §4); packet-cut dimension is exercised incidentally by C03/C01",
    "C13": "pure arithmetic on (value, limits, type); nothing for a simulator to schedule or fail (DESIGN.md §4)",
    "C14": "pure fold over the values passed to add_point; no device, fault or history dimension (DESIGN.md §4)",
    "C18": "pure function of the XML text (element lookup); no schedule, fault or history dimension (DESIGN.md §4)",
}

# id -> (built, level category, level text, level note, technique, design ref)
CHECKS = {
    "C11": (True, "exploration",
            "Seeded search over page-layer histories: all PagedWriter histories of length <= 3 over a 20-op boundary alphabet plus random histories up to length 40, each under a seeded short-transfer schedule of the simulated device, checked operation by operation against a byte-vector model; then PagedReader histories over the result. Sampling, not proof.",
            "Trusts the byte-vector model, the bitwise CRC-32C in refcodec and SimDisk's File semantics; device fault-free apart from short transfers.",
            "deterministic simulation: seeded operation histories over a simulated device with short-transfer schedules vs. reference model",
            "DESIGN.md §5 C11"),
}

PENDING = {}

def main():
    props = [json.loads(l) for l in open(os.path.join(HERE, "properties.jsonl"))]
    checks, na = [], []
    for p in props:
        pid = p["id"]
        if pid in NA_PURE:
            na.append({"property_id": pid, "reason": NA_PURE[pid]})
            continue
        c = CHECKS.get(pid)
        if not c or not c[0]:
            na.append({"property_id": pid, "reason": PENDING.get(pid, "check not built yet in this tree (planned in DESIGN.md §5); not claimed until it runs")})
            continue
        _, cat, text, note, tech, ref = c
        checks.append({
            "property_id": pid,
            "quick_cmd": f"./check {pid} quick",
            "thorough_cmd": f"./check {pid} thorough",
            "evidence_file": f"/verif/evidence/{pid}.json",
            "replay_cmd_template": f"./check {pid} --replay {{path}}",
            "engine": "e57sim",
            "level_claimed": {"category": cat, "text": text, "design_ref": ref},
            "level_note": note,
            "technique": tech,
        })
    hooks_commits = [l.strip() for l in open(os.path.join(HERE, "tools", "hook_commits.txt")) if l.strip()]
    m = {
        "version": 1,
        "setup_cmd": "./check --build",
        "hooks": {
            "guard": "--cfg e57_verif",
            "enable": "RUSTFLAGS=\"--cfg e57_verif\" cargo build (set by ./check for the harness crate /verif/sim, which depends on e57 by path /repo)",
            "baseline_off_cmd": "cd /repo && cargo test --workspace --no-fail-fast --offline",
            "source_commits": hooks_commits,
            "add_only": True,
        },
        "engines": [{
            "name": "e57sim",
            "path": "/verif/sim",
            "serves_properties": [c["property_id"] for c in checks],
            "kind_free_text": "deterministic simulator: SimDisk/SimPipe device seam with seeded chunking and fault plans, seeded writer programs / reader histories / foreign-producer layouts, reference models, shrinking, replay files",
        }],
        "checks": checks,
        "not_applicable": na,
        "notes": "All checks: ./check <ID> quick|thorough; VERIF_SEED honoured (default 1). Exit 2 = harness error (never a violation). known_findings.json lists recorded and fixed defects.",
    }
    json.dump(m, open(os.path.join(HERE, "MANIFEST.json"), "w"), indent=1)
    print("MANIFEST.json written:", len(checks), "checks,", len(na), "not applicable")

if __name__ == "__main__":
    main()
