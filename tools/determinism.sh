#!/bin/bash
# Determinism proof: every check, several seeds, executed twice in different processes with 16 and
# with 1 worker; the per-run digests (device-op log, results, verdict) must be identical.
# Usage: tools/determinism.sh [seeds...]   (default: 1 2 3)
set -u
cd "$(dirname "$0")/.."
./check --build >/dev/null || exit 2
BIN=./target/release/e57sim
export E57SIM_HW=/verif/target-hw/release/e57sim E57SIM_TOOLS=/verif/target-tools/release VERIF_DIR=/verif
SEEDS="${*:-1 2 3}"
TMP=$(mktemp -d /dev/shm/e57det.XXXXXX)
fail=0
for P in C01 C02 C03 C05 C06 C07 C08 C09 C10 C11 C15 C16 C17 C19 C20; do
  case $P in
    C11) RUNS=12000 ;; C08|C09) RUNS=4000 ;; C15|C16) RUNS=32 ;; C20) RUNS=60 ;; C07) RUNS=1500 ;; *) RUNS=2000 ;;
  esac
  for S in $SEEDS; do
    $BIN $P quick --seed $S --runs $RUNS --workers 16 --digests $TMP/a --no-evidence >/dev/null 2>&1
    $BIN $P quick --seed $S --runs $RUNS --workers 1 --digests $TMP/b --no-evidence >/dev/null 2>&1
    if cmp -s $TMP/a $TMP/b && [ -s $TMP/a ]; then
      echo "deterministic: $P seed=$S runs=$(wc -l < $TMP/a)"
    else
      echo "NONDETERMINISTIC: $P seed=$S"; diff $TMP/a $TMP/b | head -5; fail=1
    fi
  done
done
rm -rf $TMP
exit $fail
