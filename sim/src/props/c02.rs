//! C02 – every finalized file is a well-formed E57 file by an independent decoder.

use super::c01::gen_case;
use super::writer_rt::*;
use crate::program::*;
use crate::refcodec::{self, decode};
use crate::runner::*;

pub struct C02;

pub fn judge_image(image: &[u8], exec: &Executed) -> Option<(String, String)> {
    let (dec, problems) = decode::analyse(image);
    if let Some(p) = problems.first() {
        let class = p.split(':').next().unwrap_or("").split(' ').take(3).collect::<Vec<_>>().join("-");
        let class = if p.contains("not well-formed") || p.contains("rejected by roxmltree") {
            "fsck-xml-ill-formed".to_string()
        } else if p.contains("blob section length") {
            "fsck-blob-section-length".to_string()
        } else {
            format!("fsck-{class}")
        };
        return Some((class, format!("independent fsck: {p} ({} problems)", problems.len())));
    }
    let dec = match dec {
        Some(d) => d,
        None => return Some(("fsck-undecodable".into(), "independent decoder could not decode the file".into())),
    };
    // packets must fit 64 KiB (length field is 16 bit, so this is about consistency of the walk)
    for cv in &dec.cvs {
        for p in &cv.packets {
            if p.length > 65536 {
                return Some(("packet-too-long".into(), format!("packet of {} bytes", p.length)));
            }
        }
    }
    let mut want = exec.expected.file.clone();
    want.library_version = dec.file.library_version.clone();
    let mut got = dec.file.clone();
    // bounds are C14's; the XML text itself is not compared here
    for p in got.pcs.iter_mut() {
        p.bounds = Default::default();
    }
    if let Some(d) = refcodec::diff_file(&got, &want, false) {
        return Some(("decode-differs".into(), format!("independent decoder vs what was handed to the writer: {d}")));
    }
    for (i, ((off, len), want)) in exec.blob_descs.iter().zip(exec.expected.blobs.iter()).enumerate() {
        let (r, problems) = decode::standalone_blob(image, *off, *len);
        if let Some(p) = problems.first() {
            let class = if p.contains("blob section length") { "fsck-blob-section-length" } else { "fsck-blob" };
            return Some((class.into(), format!("independent fsck: {p}")));
        }
        match r {
            Ok(b) if &b == want => {}
            Ok(b) => return Some(("decode-blob-differs".into(), format!("blob {i}: independent decoder reads {} bytes, {} written (or other content)", b.len(), want.len()))),
            Err(e) => return Some(("decode-blob-failed".into(), format!("blob {i}: {e}"))),
        }
    }
    None
}

/// A program whose coordinate metadata is chosen so that the FIRST version of the page holding
/// it, as it reaches the device, carries a special checksum: the checksum of the version of that
/// page that was on the device before (content changed, checksum did not), or - for a page that
/// is new - 0 (`alt`: 0xFFFFFFFF), the values a page buffer holds before any checksum was computed. CRC-32C is affine over GF(2): each of 48
/// characters of the string toggles between 'A' and 'C' (one bit), the 48 effect vectors are
/// reduced by Gaussian elimination. None if the marker does not lie in one page write or the
/// system has no solution.
pub fn program_with_page_checksum(seed: u64, alt: bool) -> Option<Program> {
    use crate::model::Bytes;
    use crate::refcodec::page::crc32c;
    use crate::rng::Rng;
    use crate::simdisk::*;
    const N: usize = 48;
    let mut g = Rng::new(seed);
    let mut calls = Vec::new();
    if g.chance(1, 2) {
        // something in front: the XML then starts elsewhere in the page
        let n = g.usize_below(600);
        calls.push(Call::Blob { data: Bytes::draw(&mut g, n), pipe: Chunk::Full, fail_after: None });
    }
    // short: everything in page 0; long: the string lies in a later page of the XML
    let fill = if g.chance(1, 2) { g.usize_below(200) } else { 700 + g.usize_below(1500) };
    let marker = "A".repeat(N);
    let text = |m: &str| format!("{}{}{}", "q".repeat(fill), m, "z");
    calls.push(Call::CoordMeta(Some(text(&marker))));
    let at = calls.len() - 1;
    let mut prog = Program { guid: crate::gen::gen_guid(&mut g), calls, end: End::Finalize, knob: None, on_error: OnError::Stop };
    let first_write_with = |prog: &Program, needle: &[u8]| -> Option<(Vec<u8>, usize, Option<u32>)> {
        let ctx = new_ctx(vec![]);
        {
            let mut c = ctx.borrow_mut();
            c.record_ops = true;
            c.record_writes = true;
        }
        let disk = SimDisk::new(&ctx, DEV_DISK, Vec::new(), &Chunk::Full);
        let e = exec_program(prog, &ctx, &disk);
        if !e.completed {
            return None;
        }
        let log = ctx.borrow();
        let mut before: std::collections::BTreeMap<u64, u32> = std::collections::BTreeMap::new();
        for o in log.log.iter().filter(|o| o.kind == OpKind::Write && o.moved == 1024) {
            if let Some(d) = &o.data {
                if let Some(p) = d[..1020].windows(needle.len()).position(|w| w == needle) {
                    return Some((d.clone(), p, before.get(&o.offset).copied()));
                }
                before.insert(o.offset, u32::from_be_bytes(d[1020..1024].try_into().unwrap()));
            }
        }
        None
    };
    let (page, pos, prev) = first_write_with(&prog, marker.as_bytes())?;
    let target = match (prev, alt) {
        (Some(c), false) => c,
        (Some(c), true) => !c,
        (None, false) => 0,
        (None, true) => u32::MAX,
    };
    let base = crc32c(&page[..1020]);
    // effect of toggling character i ('A' 0x41 <-> 'C' 0x43: bit 1)
    let mut rows: Vec<(u32, u64)> = Vec::new(); // (effect vector, which characters)
    for i in 0..N {
        let mut p = page[..1020].to_vec();
        p[pos + i] ^= 0x02;
        rows.push((crc32c(&p) ^ base, 1u64 << i));
    }
    // Gaussian elimination: express base ^ target as a combination of the effect vectors
    let mut want = base ^ target;
    let mut chosen = 0u64;
    let mut basis: Vec<(u32, u64)> = Vec::new();
    for (mut v, mut m) in rows {
        for (bv, bm) in &basis {
            let top = 31 - bv.leading_zeros();
            if v >> top & 1 == 1 {
                v ^= bv;
                m ^= bm;
            }
        }
        if v != 0 {
            basis.push((v, m));
            basis.sort_by(|a, b| b.0.cmp(&a.0));
        }
    }
    for (bv, bm) in &basis {
        let top = 31 - bv.leading_zeros();
        if want >> top & 1 == 1 {
            want ^= bv;
            chosen ^= bm;
        }
    }
    if want != 0 {
        return None;
    }
    let tuned: String = (0..N).map(|i| if chosen >> i & 1 == 1 { 'C' } else { 'A' }).collect();
    prog.calls[at] = Call::CoordMeta(Some(text(&tuned)));
    // (no confirmation run: under a defect that reacts to this checksum the tuned program
    // behaves differently from the one it was computed from - which is the point)
    if std::env::var("E57SIM_TRACE").is_ok() {
        eprintln!("crc-tuned program: prev={prev:?} target={target:08x} pos={pos} calls={}", prog.calls.len());
    }
    Some(prog)
}

fn is_crc_tuned(prog: &Program) -> bool {
    prog.calls.iter().any(|c| match c {
        Call::CoordMeta(Some(s)) => {
            let t = s.trim_start_matches('q');
            t.len() == 49 && t.ends_with('z') && t[..48].chars().all(|c| c == 'A' || c == 'C') && t.contains('C')
        }
        _ => false,
    })
}

impl Prop for C02 {
    type Case = WriterCase;
    fn id(&self) -> &'static str {
        "C02"
    }
    fn meta(&self) -> Meta {
        Meta {
            level: "exploration",
            rule: "same program space as C01/C06 (placement sweep over section start residues, knob on/off) with metadata strings from the full token pool (incl. '<', '&', quotes, ']]>', whitespace-only, astral code points); every successfully finalized image is judged by refcodec: fsck rules (whole pages, bitwise CRC-32C big-endian on every page, header fields, XML well-formed and namespace-correct by an own parser AND roxmltree, every fileOffset 4-byte aligned outside checksum bytes on a section header of the right id, section length / packet chain / packet length / stream table / zero padding consistency, blob section length = round4(16+length), sections and XML pairwise disjoint) then decode(image) == points, blob bytes and metadata handed to the writer. Every 512th run is a small program whose coordinate metadata is solved (CRC-32C is affine over GF(2)) so that the first version of its page reaches the device with the same checksum as the version of that page written before it (content changed, checksum not), or with the checksum 0 / 0xFFFFFFFF when the page is new. Every rule is calibrated on the 19 bundled foreign files at start-up. Distinct/non-trivial as C01".into(),
            assumptions: vec![
                "refcodec is written from the format description and calibrated on E57RefImpl / libE57Format / las2e57 files".into(),
                "metadata floats are finite; strings are XML 1.0 characters without CR".into(),
                "bounds (C14) and e57LibraryVersion are not compared".into(),
            ],
            real: vec!["e57 crate writer paths".into()],
            stub: vec!["SimDisk".into(), "SimPipe".into(), "refcodec fsck/decoder (judge)".into(), "roxmltree as second opinion on well-formedness".into()],
            required_probes: vec!["cv_header_straddles_page".into(), "blob_header_straddles_page".into(), "multi_packet_cloud_knob_off".into(), "page_version_with_solved_checksum".into()],
        }
    }
    fn preflight(&self) -> Result<(), String> {
        refcodec::calibrate(false).map(|_| ())
    }
    fn plan(&self, tier: Tier) -> Plan {
        match tier {
            Tier::Quick => Plan { runs: 9216, time_box_s: None, isolation: Isolation::Threads },
            Tier::Thorough => Plan { runs: 3_000_000, time_box_s: Some(480), isolation: Isolation::Threads },
        }
    }
    fn generate(&self, rc: &RunCtx) -> WriterCase {
        let mut c = gen_case(rc, rc.index % 2 == 0, true);
        if rc.index % 512 == 300 {
            // an XML section of 270..420 KB (one write call of several hundred pages)
            let mut g = crate::rng::Rng::stream(rc.run_seed, "big-xml");
            let n = 270_000 + g.usize_below(150_000);
            c.prog.calls.retain(|x| !matches!(x, Call::CoordMeta(_)));
            c.prog.calls.insert(0, Call::CoordMeta(Some("m".repeat(n))));
        }
        if rc.index % 512 == 200 {
            // a page whose first version carries the checksum 0 / 0xFFFFFFFF
            if let Some(p) = program_with_page_checksum(rc.run_seed, (rc.index / 512) % 4 == 3) {
                c.prog = p;
            }
        }
        c
    }
    fn execute(&self, case: &WriterCase, st: &mut RunStats) -> Outcome<WriterCase> {
        st.evaluations = 1;
        let w = write_case(case);
        if let Some((class, detail)) = call_contradiction(&w.exec) {
            return Outcome::fail(class, detail);
        }
        if !w.exec.completed {
            return Outcome::fail("not-finalized", "top-level finalize did not succeed".to_string());
        }
        if let Some((class, detail)) = judge_image(&w.image, &w.exec) {
            return Outcome::fail(class, detail);
        }
        // placement statistics through the crate's reader (also proves the file opens)
        match read_back(&w.image, &w.ctx, &case.rchunk, &case.sink, &w.exec.blob_descs) {
            Ok(rb) => {
                note_placement(st, &rb);
                for pc in &w.exec.expected.file.pcs {
                    if case.prog.knob.is_none() {
                        st.probe("multi_packet_cloud_knob_off", pc.records as usize > crate::gen::packet_capacity(&pc.proto));
                    }
                }
                if w.image.len() > 1024 && (!rb.pc_offsets.is_empty() || !rb.blob_offsets.is_empty()) {
                    st.fingerprint(shape_fingerprint(case, Some(&rb)));
                }
            }
            Err(e) => return Outcome::fail("reopen-failed", format!("file judged well-formed does not open with the crate's reader: {e}")),
        }
        st.probe("page_version_with_solved_checksum", is_crc_tuned(&case.prog));
        st.absorb_ctx(&w.ctx);
        let mut dg = crate::rng::Digest::new();
        dg.bytes(&w.image);
        st.digest = dg.finish();
        if st.sample.is_none() {
            st.sample = Some(sample_of(case, &w.exec, w.image.len()));
        }
        Outcome::Held
    }
    fn shrink(&self, case: &WriterCase) -> Vec<WriterCase> {
        shrink_writer_case(case)
    }
}
