//! C02 – every finalized file is a well-formed E57 file by an independent decoder.

use super::c01::gen_case;
use super::writer_rt::*;
use crate::program::*;
use crate::refcodec::{self, decode};
use crate::runner::*;

pub struct C02;

pub fn judge_image(image: &[u8], exec: &Executed) -> Option<(String, String)> {
    let (dec, problems) = decode::analyse(image);
    if let Some(p) = problems.first() {
        let class = p.split(':').next().unwrap_or("").split(' ').take(3).collect::<Vec<_>>().join("-");
        let class = if p.contains("not well-formed") || p.contains("rejected by roxmltree") {
            "fsck-xml-ill-formed".to_string()
        } else if p.contains("blob section length") {
            "fsck-blob-section-length".to_string()
        } else {
            format!("fsck-{class}")
        };
        return Some((class, format!("independent fsck: {p} ({} problems)", problems.len())));
    }
    let dec = match dec {
        Some(d) => d,
        None => return Some(("fsck-undecodable".into(), "independent decoder could not decode the file".into())),
    };
    // packets must fit 64 KiB (length field is 16 bit, so this is about consistency of the walk)
    for cv in &dec.cvs {
        for p in &cv.packets {
            if p.length > 65536 {
                return Some(("packet-too-long".into(), format!("packet of {} bytes", p.length)));
            }
        }
    }
    let mut want = exec.expected.file.clone();
    want.library_version = dec.file.library_version.clone();
    let mut got = dec.file.clone();
    // bounds are C14's; the XML text itself is not compared here
    for p in got.pcs.iter_mut() {
        p.bounds = Default::default();
    }
    if let Some(d) = refcodec::diff_file(&got, &want, false) {
        return Some(("decode-differs".into(), format!("independent decoder vs what was handed to the writer: {d}")));
    }
    for (i, ((off, len), want)) in exec.blob_descs.iter().zip(exec.expected.blobs.iter()).enumerate() {
        let (r, problems) = decode::standalone_blob(image, *off, *len);
        if let Some(p) = problems.first() {
            let class = if p.contains("blob section length") { "fsck-blob-section-length" } else { "fsck-blob" };
            return Some((class.into(), format!("independent fsck: {p}")));
        }
        match r {
            Ok(b) if &b == want => {}
            Ok(b) => return Some(("decode-blob-differs".into(), format!("blob {i}: independent decoder reads {} bytes, {} written (or other content)", b.len(), want.len()))),
            Err(e) => return Some(("decode-blob-failed".into(), format!("blob {i}: {e}"))),
        }
    }
    None
}

impl Prop for C02 {
    type Case = WriterCase;
    fn id(&self) -> &'static str {
        "C02"
    }
    fn meta(&self) -> Meta {
        Meta {
            level: "exploration",
            rule: "same program space as C01/C06 (placement sweep over section start residues, knob on/off) with metadata strings from the full token pool (incl. '<', '&', quotes, ']]>', whitespace-only, astral code points); every successfully finalized image is judged by refcodec: fsck rules (whole pages, bitwise CRC-32C big-endian on every page, header fields, XML well-formed and namespace-correct by an own parser AND roxmltree, every fileOffset 4-byte aligned outside checksum bytes on a section header of the right id, section length / packet chain / packet length / stream table / zero padding consistency, blob section length = round4(16+length), sections and XML pairwise disjoint) then decode(image) == points, blob bytes and metadata handed to the writer. Every rule is calibrated on the 19 bundled foreign files at start-up. Distinct/non-trivial as C01".into(),
            assumptions: vec![
                "refcodec is written from the format description and calibrated on E57RefImpl / libE57Format / las2e57 files".into(),
                "metadata floats are finite; strings are XML 1.0 characters without CR".into(),
                "bounds (C14) and e57LibraryVersion are not compared".into(),
            ],
            real: vec!["e57 crate writer paths".into()],
            stub: vec!["SimDisk".into(), "SimPipe".into(), "refcodec fsck/decoder (judge)".into(), "roxmltree as second opinion on well-formedness".into()],
            required_probes: vec!["cv_header_straddles_page".into(), "blob_header_straddles_page".into(), "multi_packet_cloud_knob_off".into()],
        }
    }
    fn preflight(&self) -> Result<(), String> {
        refcodec::calibrate(false).map(|_| ())
    }
    fn plan(&self, tier: Tier) -> Plan {
        match tier {
            Tier::Quick => Plan { runs: 9216, time_box_s: None, isolation: Isolation::Threads },
            Tier::Thorough => Plan { runs: 3_000_000, time_box_s: Some(480), isolation: Isolation::Threads },
        }
    }
    fn generate(&self, rc: &RunCtx) -> WriterCase {
        gen_case(rc, rc.index % 2 == 0, true)
    }
    fn execute(&self, case: &WriterCase, st: &mut RunStats) -> Outcome<WriterCase> {
        st.evaluations = 1;
        let w = write_case(case);
        if let Some((class, detail)) = call_contradiction(&w.exec) {
            return Outcome::fail(class, detail);
        }
        if !w.exec.completed {
            return Outcome::fail("not-finalized", "top-level finalize did not succeed".to_string());
        }
        if let Some((class, detail)) = judge_image(&w.image, &w.exec) {
            return Outcome::fail(class, detail);
        }
        // placement statistics through the crate's reader (also proves the file opens)
        match read_back(&w.image, &w.ctx, &case.rchunk, &case.sink, &w.exec.blob_descs) {
            Ok(rb) => {
                note_placement(st, &rb);
                for pc in &w.exec.expected.file.pcs {
                    if case.prog.knob.is_none() {
                        st.probe("multi_packet_cloud_knob_off", pc.records as usize > crate::gen::packet_capacity(&pc.proto));
                    }
                }
                if w.image.len() > 1024 && (!rb.pc_offsets.is_empty() || !rb.blob_offsets.is_empty()) {
                    st.fingerprint(shape_fingerprint(case, Some(&rb)));
                }
            }
            Err(e) => return Outcome::fail("reopen-failed", format!("file judged well-formed does not open with the crate's reader: {e}")),
        }
        st.absorb_ctx(&w.ctx);
        let mut dg = crate::rng::Digest::new();
        dg.bytes(&w.image);
        st.digest = dg.finish();
        if st.sample.is_none() {
            st.sample = Some(sample_of(case, &w.exec, w.image.len()));
        }
        Outcome::Held
    }
    fn shrink(&self, case: &WriterCase) -> Vec<WriterCase> {
        shrink_writer_case(case)
    }
}
