//! C11 – page layer: file payload always equals the logical stream written.
//!
//! Histories over `PagedWriter<SimDisk>` and `PagedReader<SimDisk>` (hook: `e57::verif`) against a
//! byte-vector model, under seeded device chunking.

use crate::rng::{Digest, Rng};
use crate::runner::*;
use crate::simdisk::*;
use crate::refcodec::page::crc32c;
use e57::verif::{PagedReader, PagedWriter};
use serde::{Deserialize, Serialize};
use serde_json::json;
use std::io::{Read, Write};

#[derive(Clone, Debug, PartialEq, Serialize, Deserialize)]
pub enum WOp {
    /// one `Write::write` call with n bytes
    Write { n: usize, seed: u64 },
    WriteAll { n: usize, seed: u64 },
    /// write_all of n bytes (inside one page) whose last four bytes are solved so that the page,
    /// as it is flushed next, has a special checksum: that of the page's previous version (the
    /// content changes, the checksum does not), or - for a page that holds nothing yet - 0
    /// (`alt`: 0xFFFFFFFF). Falls back to plain data where the write does not fit one page.
    WriteSolved { n: usize, seed: u64, alt: bool },
    Seek { p: u64 },
    /// seek to (physical end + d) computed at execution time
    SeekEnd { d: i64 },
    Flush,
    Align,
    Pos,
    Size,
}

#[derive(Clone, Debug, PartialEq, Serialize, Deserialize)]
pub enum ROp {
    Seek { p: u64 },
    Read { n: usize },
    ReadExact { n: usize },
    Align,
}

#[derive(Clone, Debug, Serialize, Deserialize)]
pub struct Case {
    pub wchunk: Chunk,
    pub wops: Vec<WOp>,
    pub rchunk: Chunk,
    pub rops: Vec<ROp>,
}

pub struct C11;

const PAYLOAD: u64 = 1020;

fn to_phys(l: u64) -> u64 {
    l + 4 * (l / PAYLOAD)
}

/// Bytes of a write: by seed class all zero (what a fresh page holds anyway), all 0xFF, or
/// non-zero pseudo-random bytes (so that zero fill is distinguishable from data).
fn content(n: usize, seed: u64) -> Vec<u8> {
    match seed % 8 {
        7 => vec![0u8; n],
        6 => vec![0xFFu8; n],
        _ => {
            let mut r = Rng::new(seed);
            (0..n).map(|_| 1 + r.below(255) as u8).collect()
        }
    }
}

fn alphabet() -> Vec<WOp> {
    vec![
        WOp::Write { n: 1, seed: 1 },
        WOp::Write { n: 4, seed: 2 },
        WOp::Write { n: 1019, seed: 3 },
        WOp::Write { n: 1020, seed: 4 },
        WOp::Write { n: 1021, seed: 5 },
        WOp::Write { n: 2041, seed: 6 },
        WOp::WriteAll { n: 3, seed: 9 + 8 },
        // all-zero data: 4 bytes and a whole page payload
        WOp::WriteAll { n: 4, seed: 7 },
        WOp::WriteAll { n: 1020, seed: 15 },
        WOp::WriteAll { n: 1020, seed: 8 },
        WOp::WriteAll { n: 1030, seed: 9 },
        WOp::WriteAll { n: 2040, seed: 10 },
        WOp::Seek { p: 0 },
        WOp::Seek { p: 48 },
        WOp::Seek { p: 1019 },
        WOp::Seek { p: 1021 },
        WOp::Seek { p: 1024 },
        WOp::SeekEnd { d: 1 },
        WOp::Flush,
        WOp::Align,
        WOp::Size,
        WOp::Pos,
    ]
}

fn corpus_size() -> u64 {
    let a = alphabet().len() as u64;
    a + a * a + a * a * a
}

fn corpus_case(mut i: u64) -> Vec<WOp> {
    let alpha = alphabet();
    let a = alpha.len() as u64;
    let mut len = 1;
    let mut block = a;
    while i >= block {
        i -= block;
        block *= a;
        len += 1;
    }
    let mut ops = Vec::new();
    for _ in 0..len {
        ops.push(alpha[(i % a) as usize].clone());
        i /= a;
    }
    ops
}

fn draw_len(r: &mut Rng) -> usize {
    const B: [usize; 24] = [
        0, 1, 2, 3, 4, 5, 7, 8, 16, 48, 1015, 1016, 1017, 1018, 1019, 1020, 1021, 1022, 1023, 1024, 2036, 2040, 2041, 2048,
    ];
    if r.chance(3, 4) {
        *r.pick(&B)
    } else {
        r.usize_below(4200)
    }
}

fn draw_phys(r: &mut Rng) -> u64 {
    // around page boundaries of the first five pages, including checksum bytes
    match r.below(5) {
        0 => {
            let page = r.below(5);
            let off = *r.pick(&[0u64, 1, 3, 4, 47, 48, 1016, 1017, 1018, 1019]);
            page * 1024 + off
        }
        1 => r.below(5) * 1024 + 1020 + r.below(4), // checksum bytes
        2 => r.below(5) * 1024,
        3 => r.below(6000),
        _ => *r.pick(&[0u64, 16, 24, 32, 40, 48]),
    }
}

fn standard_rops() -> Vec<ROp> {
    vec![
        ROp::Seek { p: 0 },
        ROp::Read { n: 7 },
        ROp::Align,
        ROp::Read { n: 1500 },
        ROp::ReadExact { n: 1009 },
        ROp::Read { n: 5000 },
        ROp::Read { n: 5000 },
        ROp::Seek { p: 1019 },
        ROp::Read { n: 2 },
        ROp::Seek { p: 1024 },
        ROp::Read { n: 1020 },
        ROp::Read { n: 1 },
    ]
}

struct Model {
    data: Vec<u8>,
    cur: u64,
}

impl Model {
    fn put(&mut self, bytes: &[u8]) {
        let c = self.cur as usize;
        if self.data.len() < c + bytes.len() {
            self.data.resize(c + bytes.len(), 0);
        }
        self.data[c..c + bytes.len()].copy_from_slice(bytes);
        self.cur += bytes.len() as u64;
    }
    /// A flush persists the cursor's page (zero-filled to 1020 bytes) unless the cursor sits at a
    /// page start. Invariant: the stream ends on a page boundary or inside the cursor's page.
    fn flush(&mut self) {
        if self.cur % PAYLOAD != 0 {
            let want = ((self.cur / PAYLOAD + 1) * PAYLOAD) as usize;
            if self.data.len() < want {
                self.data.resize(want, 0);
            }
        }
    }
    fn phys_end(&self) -> u64 {
        (self.data.len() as u64).div_ceil(PAYLOAD) * 1024
    }
}

fn check_image(img: &[u8], model: &Model, when: &str) -> Result<(), Violation> {
    let fail = |class: &str, d: String| {
        Err(Violation {
            class: class.to_string(),
            detail: format!("{when}: {d}"),
        })
    };
    if img.len() % 1024 != 0 {
        return fail("device-length", format!("device length {} is not a whole number of pages", img.len()));
    }
    let pages = img.len() / 1024;
    let want_pages = model.data.len().div_ceil(PAYLOAD as usize);
    if pages != want_pages {
        return fail(
            "page-count",
            format!("device has {pages} pages, logical stream of {} bytes needs {want_pages}", model.data.len()),
        );
    }
    for p in 0..pages {
        let page = &img[p * 1024..(p + 1) * 1024];
        let crc = crc32c(&page[..1020]).to_be_bytes();
        if crc != page[1020..] {
            return fail("page-crc", format!("page {p} checksum invalid at a flush point"));
        }
        let lo = p * 1020;
        for i in 0..1020 {
            let want = model.data.get(lo + i).copied().unwrap_or(0);
            if page[i] != want {
                return fail(
                    "payload",
                    format!("payload byte {} (page {p} offset {i}) is {} but logical stream has {want}", lo + i, page[i]),
                );
            }
        }
    }
    Ok(())
}

pub fn run_case(case: &Case, st: &mut RunStats) -> Outcome<Case> {
    st.evaluations = 1;
    let ctx = new_ctx(Vec::new());
    let disk = SimDisk::new(&ctx, DEV_DISK, Vec::new(), &case.wchunk);
    let mut dg = Digest::new();
    let mut model = Model { data: Vec::new(), cur: 0 };
    let mut crossed = false;
    let mut seek_back = false;
    let mut rejected = 0u64;
    let mut solved_writes = 0u64;
    {
        let mut w = match PagedWriter::new(disk.clone()) {
            Ok(w) => w,
            Err(e) => return Outcome::fail("writer-new", format!("PagedWriter::new failed: {e}")),
        };
        for (i, op) in case.wops.iter().enumerate() {
            let when = format!("writer op #{i} {op:?}");
            let mut flush_point = false;
            match op {
                WOp::Write { n, seed } => {
                    let buf = content(*n, *seed);
                    match w.write(&buf) {
                        Ok(k) => {
                            if k > buf.len() || (k == 0 && !buf.is_empty()) {
                                return Outcome::fail("write-count", format!("{when}: write returned {k} for {} bytes", buf.len()));
                            }
                            model.put(&buf[..k]);
                            dg.u64(k as u64);
                        }
                        Err(e) => return Outcome::fail("write-err", format!("{when}: failed on a fault-free device: {e}")),
                    }
                }
                WOp::WriteAll { n, seed } => {
                    let buf = content(*n, *seed);
                    if let Err(e) = w.write_all(&buf) {
                        return Outcome::fail("write-err", format!("{when}: failed on a fault-free device: {e}"));
                    }
                    model.put(&buf);
                }
                WOp::WriteSolved { n, seed, alt } => {
                    let mut buf = content(*n, *seed | 1);
                    let off = (model.cur % PAYLOAD) as usize;
                    if *n >= 4 && off + *n <= PAYLOAD as usize {
                        let lo = (model.cur - off as u64) as usize;
                        let mut page = vec![0u8; PAYLOAD as usize];
                        let have = model.data.len().saturating_sub(lo).min(PAYLOAD as usize);
                        page[..have].copy_from_slice(&model.data[lo..lo + have]);
                        let fresh = have == 0;
                        let before = crc32c(&page);
                        page[off..off + *n].copy_from_slice(&buf);
                        let target = match (fresh, *alt) {
                            (true, false) => 0,
                            (true, true) => u32::MAX,
                            (false, false) => before,
                            (false, true) => !before,
                        };
                        if crate::refcodec::page::solve_crc32c(&mut page, off + *n - 4, target).is_some() {
                            buf.copy_from_slice(&page[off..off + *n]);
                            solved_writes += 1;
                        }
                    }
                    if let Err(e) = w.write_all(&buf) {
                        return Outcome::fail("write-err", format!("{when}: failed on a fault-free device: {e}"));
                    }
                    model.put(&buf);
                }
                WOp::Seek { .. } | WOp::SeekEnd { .. } => {
                    model.flush();
                    flush_point = true;
                    let p = match op {
                        WOp::Seek { p } => *p,
                        WOp::SeekEnd { d } => (model.phys_end() as i64 + *d).max(0) as u64,
                        _ => 0,
                    };
                    let valid = p <= model.phys_end() && p % 1024 < 1020;
                    match w.physical_seek(p) {
                        Ok(()) => {
                            if !valid {
                                return Outcome::fail(
                                    "seek-accepted",
                                    format!("{when}: seek to {p} accepted (end {}), target is {}", model.phys_end(),
                                        if p % 1024 >= 1020 { "inside a checksum" } else { "beyond the end" }),
                                );
                            }
                            let l = p - 4 * (p / 1024);
                            if l < model.cur {
                                seek_back = true;
                            }
                            model.cur = l;
                        }
                        Err(e) => {
                            if valid {
                                return Outcome::fail("seek-rejected", format!("{when}: valid seek to {p} rejected: {e}"));
                            }
                            rejected += 1;
                        }
                    }
                }
                WOp::Flush => {
                    model.flush();
                    flush_point = true;
                    if let Err(e) = w.flush() {
                        return Outcome::fail("flush-err", format!("{when}: {e}"));
                    }
                }
                WOp::Align => {
                    let pad = (4 - model.cur % 4) % 4;
                    if let Err(e) = w.align() {
                        return Outcome::fail("align-err", format!("{when}: {e}"));
                    }
                    model.put(&vec![0u8; pad as usize]);
                }
                WOp::Pos => {}
                WOp::Size => {
                    model.flush();
                    flush_point = true;
                    match w.physical_size() {
                        Ok(s) => {
                            if s != model.phys_end() {
                                return Outcome::fail("size", format!("{when}: physical_size {s}, model {}", model.phys_end()));
                            }
                        }
                        Err(e) => return Outcome::fail("size-err", format!("{when}: {e}")),
                    }
                }
            }
            if model.data.len() as u64 > PAYLOAD {
                crossed = true;
            }
            match w.physical_position() {
                Ok(pos) => {
                    if pos != to_phys(model.cur) {
                        return Outcome::fail(
                            "position",
                            format!("{when}: physical_position {pos}, logical cursor {} translates to {}", model.cur, to_phys(model.cur)),
                        );
                    }
                    dg.u64(pos);
                }
                Err(e) => return Outcome::fail("position-err", format!("{when}: {e}")),
            }
            if flush_point {
                if let Err(v) = check_image(&disk.image(), &model, &when) {
                    return Outcome::Violation(v, None);
                }
            }
        }
        drop(w);
    }
    model.flush();
    let img = disk.image();
    if let Err(v) = check_image(&img, &model, "after drop") {
        return Outcome::Violation(v, None);
    }
    dg.bytes(&img);
    st.count("writer_ops", case.wops.len() as u64);
    st.count("rejected_seeks", rejected);
    st.probe("page_boundary_crossed", crossed);
    st.probe("seek_back_patch", seek_back);
    st.count("writes_with_solved_page_checksum", solved_writes);
    st.probe("single_write_of_64_pages_or_more", case.wops.iter().any(|o| matches!(o, WOp::Write { n, .. } | WOp::WriteAll { n, .. } if *n >= 65_280)));
    st.probe("rejected_seek_then_more_ops", rejected > 0);
    st.probe("short_device_transfers_writer", disk.short_transfers() > 0);

    // read side
    let logical = model.data.clone();
    let mut rcur: u64 = 0;
    let mut read_cross = false;
    if !img.is_empty() {
        let rdisk = SimDisk::new(&ctx, DEV_DISK2, img.clone(), &case.rchunk);
        let mut r = match PagedReader::new(rdisk.clone(), 1024) {
            Ok(r) => r,
            Err(e) => return Outcome::fail("reader-new", format!("PagedReader::new failed on a flushed image: {e}")),
        };
        for (i, op) in case.rops.iter().enumerate() {
            let when = format!("reader op #{i} {op:?}");
            match op {
                ROp::Seek { p } => {
                    let in_payload = *p < img.len() as u64 && p % 1024 < 1020;
                    if *p < img.len() as u64 && !in_payload {
                        continue; // checksum offsets: not part of the property's seek space
                    }
                    match r.seek_physical(*p) {
                        Ok(l) => {
                            if in_payload {
                                let want = p - 4 * (p / 1024);
                                if l != want {
                                    return Outcome::fail("rseek-logical", format!("{when}: returned logical offset {l}, expected {want}"));
                                }
                                rcur = want;
                            } else {
                                rcur = logical.len() as u64;
                            }
                        }
                        Err(e) => {
                            if in_payload {
                                return Outcome::fail("rseek-rejected", format!("{when}: valid seek rejected: {e}"));
                            }
                        }
                    }
                }
                ROp::Read { n } => {
                    let mut buf = vec![0xAAu8; *n];
                    match r.read(&mut buf) {
                        Ok(k) => {
                            let remaining = logical.len() as u64 - rcur.min(logical.len() as u64);
                            if k > *n || (k as u64) > remaining {
                                return Outcome::fail("read-count", format!("{when}: returned {k} bytes, {remaining} remain"));
                            }
                            if k == 0 && *n > 0 && remaining > 0 {
                                return Outcome::fail("read-eof", format!("{when}: returned 0 with {remaining} bytes remaining"));
                            }
                            let lo = rcur as usize;
                            if buf[..k] != logical[lo..lo + k] {
                                return Outcome::fail("read-data", format!("{when}: bytes at logical {lo}..{} differ from the logical stream", lo + k));
                            }
                            if (rcur / PAYLOAD) != ((rcur + k as u64) / PAYLOAD) {
                                read_cross = true;
                            }
                            rcur += k as u64;
                            dg.u64(k as u64);
                        }
                        Err(e) => return Outcome::fail("read-err", format!("{when}: {e}")),
                    }
                }
                ROp::ReadExact { n } => {
                    let mut buf = vec![0xAAu8; *n];
                    let fits = rcur + *n as u64 <= logical.len() as u64;
                    match r.read_exact(&mut buf) {
                        Ok(()) => {
                            if !fits {
                                return Outcome::fail("readexact-beyond", format!("{when}: succeeded beyond the end"));
                            }
                            let lo = rcur as usize;
                            if buf[..] != logical[lo..lo + n] {
                                return Outcome::fail("read-data", format!("{when}: bytes at logical {lo}..{} differ", lo + n));
                            }
                            if (rcur / PAYLOAD) != ((rcur + *n as u64) / PAYLOAD) {
                                read_cross = true;
                            }
                            rcur += *n as u64;
                        }
                        Err(e) => {
                            if fits {
                                return Outcome::fail("read-err", format!("{when}: {e}"));
                            }
                            break; // cursor unspecified after a failed read_exact
                        }
                    }
                }
                ROp::Align => {
                    let want = rcur.div_ceil(4) * 4;
                    match r.align() {
                        Ok(()) => rcur = want,
                        Err(e) => {
                            if want <= logical.len() as u64 {
                                return Outcome::fail("ralign-err", format!("{when}: {e}"));
                            }
                        }
                    }
                }
            }
        }
        st.probe("short_device_transfers_reader", rdisk.short_transfers() > 0);
    }
    st.probe("read_across_page", read_cross);
    st.absorb_ctx(&ctx);
    dg.u64(rcur);
    st.digest = dg.finish();
    // fingerprint: op kinds + boundary classes of their arguments
    let mut fp = Digest::new();
    for op in &case.wops {
        match op {
            WOp::Write { n, .. } => fp.u64(1).u64(class_of(*n as u64)),
            WOp::WriteAll { n, .. } => fp.u64(2).u64(class_of(*n as u64)),
            WOp::WriteSolved { alt, .. } => fp.u64(9).u64(*alt as u64),
            WOp::Seek { p } => fp.u64(3).u64(class_of(*p % 1024)).u64(*p / 1024),
            WOp::SeekEnd { d } => fp.u64(4).u64(*d as u64),
            WOp::Flush => fp.u64(5),
            WOp::Align => fp.u64(6),
            WOp::Pos => fp.u64(7),
            WOp::Size => fp.u64(8),
        };
    }
    fp.str(case.wchunk.name());
    if crossed || seek_back {
        st.fingerprint(fp.finish());
    }
    if st.sample.is_none() {
        st.sample = Some(json!({"writer_ops": format!("{:?}", case.wops), "device_chunking": case.wchunk.name(),
            "reader_ops": format!("{:?}", case.rops), "logical_len": logical.len()}));
    }
    Outcome::Held
}

fn class_of(n: u64) -> u64 {
    match n {
        0..=8 => n,
        1015..=1025 => n,
        2036..=2048 => n,
        _ => 9 + (n / 1020) * 4 + (n % 4),
    }
}

impl Prop for C11 {
    type Case = Case;
    fn id(&self) -> &'static str {
        "C11"
    }
    fn meta(&self) -> Meta {
        Meta {
            level: "exploration",
            rule: format!(
                "run index i < {} enumerates every PagedWriter history of length <= 3 over a 22-operation boundary alphabet (writes of non-zero, all-zero and all-0xFF data) \
                 (write/write_all of 1,3,4,1019..1021,1030,2040,2041 bytes; physical_seek to 0,48,1019,1021(checksum),1024,end+1; flush; align; size; position); \
                 larger indices draw histories of length <= 40 with boundary-biased arguments; each under a seeded device chunk schedule; \
                 then a PagedReader history over the result. Oracle after every operation: byte-vector model. \
                 Distinct = hash(op kinds, argument boundary class, chunk schedule kind); non-trivial = crosses a page boundary or seeks back",
                corpus_size()
            ),
            assumptions: vec![
                "device is fault-free apart from short transfers (faults are C16)".into(),
                "a rejected physical_seek must leave the writer usable with unchanged cursor".into(),
                "reader seeks into checksum bytes are outside the property and skipped".into(),
            ],
            real: vec!["e57::paged_writer::PagedWriter".into(), "e57::paged_reader::PagedReader".into(), "e57 crc32 (or crc32c crate with hwcrc)".into()],
            stub: vec!["SimDisk (device)".into(), "byte-vector model".into(), "bitwise CRC-32C of refcodec".into()],
            required_probes: vec![
                "page_boundary_crossed".into(),
                "seek_back_patch".into(),
                "rejected_seek_then_more_ops".into(),
                "short_device_transfers_writer".into(),
                "short_device_transfers_reader".into(),
                "read_across_page".into(),
            ],
        }
    }
    fn plan(&self, tier: Tier) -> Plan {
        match tier {
            Tier::Quick => Plan { runs: corpus_size() + 6000, time_box_s: None, isolation: Isolation::Threads },
            Tier::Thorough => Plan { runs: corpus_size() + 12_000_000, time_box_s: Some(420), isolation: Isolation::Threads },
        }
    }
    fn generate(&self, rc: &RunCtx) -> Case {
        let mut g = Rng::stream(rc.run_seed, "gen");
        let mut c = Rng::stream(rc.run_seed, "chunk");
        if rc.index < corpus_size() {
            return Case {
                wchunk: if rc.index % 2 == 0 { Chunk::Full } else { Chunk::draw_short(&mut c) },
                wops: corpus_case(rc.index),
                rchunk: if rc.index % 3 == 0 { Chunk::Full } else { Chunk::draw_short(&mut c) },
                rops: standard_rops(),
            };
        }
        let len = 1 + g.usize_below(40);
        let mut wops = Vec::new();
        for _ in 0..len {
            let op = match g.weighted(&[5, 5, 4, 1, 2, 2, 1, 2, 1]) {
                8 => WOp::WriteSolved { n: 4 + g.usize_below(60), seed: g.next_u64(), alt: g.chance(1, 4) },
                0 => WOp::Write { n: draw_len(&mut g), seed: g.next_u64() },
                1 => WOp::WriteAll { n: draw_len(&mut g), seed: g.next_u64() },
                2 => WOp::Seek { p: draw_phys(&mut g) },
                3 => WOp::SeekEnd { d: *g.pick(&[0i64, 1, 4, 1024, -1, -4, -5, -1024]) },
                4 => WOp::Flush,
                5 => WOp::Align,
                6 => WOp::Pos,
                _ => WOp::Size,
            };
            wops.push(op);
        }
        if rc.index % 32 == 7 {
            // an overwrite of 64 pages or more in one call, starting at a page start inside
            // existing data, with a tail behind the last whole page
            let page = g.below(3);
            let n = *g.pick(&[65_279usize, 65_280, 65_281, 65_290, 66_000, 70_001]);
            let at = g.usize_below(wops.len() + 1);
            let big = if g.chance(1, 2) { WOp::WriteAll { n, seed: g.next_u64() } } else { WOp::Write { n, seed: g.next_u64() } };
            wops.splice(at..at, [WOp::WriteAll { n: 3000 + g.usize_below(3000), seed: g.next_u64() }, WOp::Seek { p: page * 1024 }, big, WOp::Flush]);
        }
        let rlen = 1 + g.usize_below(25);
        let mut rops = Vec::new();
        for _ in 0..rlen {
            let op = match g.weighted(&[3, 5, 2, 2]) {
                0 => ROp::Seek { p: draw_phys(&mut g) },
                1 => ROp::Read { n: draw_len(&mut g) },
                2 => ROp::ReadExact { n: draw_len(&mut g) },
                _ => ROp::Align,
            };
            rops.push(op);
        }
        Case { wchunk: Chunk::draw(&mut c), wops, rchunk: Chunk::draw(&mut c), rops }
    }
    fn execute(&self, case: &Case, st: &mut RunStats) -> Outcome<Case> {
        run_case(case, st)
    }
    fn shrink(&self, case: &Case) -> Vec<Case> {
        let mut out = Vec::new();
        for i in 0..case.wops.len() {
            let mut c = case.clone();
            c.wops.remove(i);
            out.push(c);
        }
        for i in 0..case.rops.len() {
            let mut c = case.clone();
            c.rops.remove(i);
            out.push(c);
        }
        if case.wchunk != Chunk::Full {
            let mut c = case.clone();
            c.wchunk = Chunk::Full;
            out.push(c);
        }
        if case.rchunk != Chunk::Full {
            let mut c = case.clone();
            c.rchunk = Chunk::Full;
            out.push(c);
        }
        for i in 0..case.wops.len() {
            let smaller = match &case.wops[i] {
                WOp::Write { n, seed } if *n > 1 => Some(WOp::Write { n: n / 2, seed: *seed }),
                WOp::WriteAll { n, seed } if *n > 1 => Some(WOp::WriteAll { n: n - 1, seed: *seed }),
                _ => None,
            };
            if let Some(s) = smaller {
                let mut c = case.clone();
                c.wops[i] = s;
                out.push(c);
            }
        }
        out
    }
    fn regressions(&self) -> Vec<(String, Case)> {
        vec![(
            "F14 rejected seek then write".into(),
            Case {
                wchunk: Chunk::Full,
                wops: vec![
                    WOp::WriteAll { n: 1030, seed: 1 },
                    WOp::Seek { p: 1021 },
                    WOp::WriteAll { n: 5, seed: 2 },
                    WOp::Flush,
                ],
                rchunk: Chunk::Full,
                rops: standard_rops(),
            },
        )]
    }
}
