//! C10 – writer API is total and never stores what it cannot represent.

use super::c02::judge_image;
use super::writer_rt::*;
use crate::gen::*;
use crate::model::*;
use crate::program::*;
use crate::refcodec;
use crate::rng::Rng;
use crate::runner::*;
use crate::simdisk::Chunk;

pub struct C10;

fn out_of_range(r: &mut Rng, min: i64, max: i64) -> Option<i64> {
    let mut c = Vec::new();
    if min > i64::MIN {
        c.push(min - 1);
        c.push(i64::MIN);
        if min > i64::MIN + 1000 {
            c.push(min - 1 - r.below(1000) as i64);
        }
    }
    if max < i64::MAX {
        c.push(max + 1);
        c.push(i64::MAX);
        // value that aliases a valid one after masking to the bit width
        let bits = int_bits(min, max);
        if bits < 62 {
            let alias = (min as i128) + (1i128 << bits) + r.below(3) as i128;
            if alias <= i64::MAX as i128 && alias > max as i128 {
                c.push(alias as i64);
            }
        }
    }
    if c.is_empty() {
        None
    } else {
        Some(*r.pick(&c))
    }
}

/// An add_point argument the prototype cannot represent (or a valid one, 1 in 4).
fn bad_point(r: &mut Rng, proto: &[Rec]) -> Point {
    let mut p: Point = proto.iter().map(|rec| gen_value(r, &rec.dt)).collect();
    match r.below(8) {
        0 => {
            p.pop();
        }
        1 => {
            let extra = p.last().copied().unwrap_or(Val::I(0));
            p.push(extra);
        }
        2 => p.clear(),
        3 | 4 => {
            // type mismatch at a drawn index
            if !p.is_empty() {
                let i = r.usize_below(p.len());
                p[i] = match p[i] {
                    Val::S(b) => *r.pick(&[Val::D(b as u64), Val::I(1), Val::SI(0)]),
                    Val::D(b) => *r.pick(&[Val::S(b as u32), Val::I(1), Val::SI(0)]),
                    Val::I(v) => *r.pick(&[Val::SI(v), Val::D(0), Val::S(0)]),
                    Val::SI(v) => *r.pick(&[Val::I(v), Val::D(0), Val::S(0)]),
                };
            }
        }
        5 | 6 => {
            // integer outside minimum..maximum
            let idx: Vec<usize> = (0..proto.len()).filter(|i| matches!(proto[*i].dt, DType::Int { .. } | DType::Scaled { .. })).collect();
            if !idx.is_empty() {
                let i = *r.pick(&idx);
                match &proto[i].dt {
                    DType::Int { min, max } => {
                        if let Some(v) = out_of_range(r, *min, *max) {
                            p[i] = Val::I(v);
                        }
                    }
                    DType::Scaled { min, max, .. } => {
                        if let Some(v) = out_of_range(r, *min, *max) {
                            p[i] = Val::SI(v);
                        }
                    }
                    _ => {}
                }
            }
        }
        _ => {}
    }
    p
}

const BAD_NAMES: [&str; 8] = ["", "xmlfoo", "XMLns", "a.b", "a b", "äöü", "a:b", "q/"];
const NON_NCNAME: [&str; 3] = ["0129", "-_-", "9a"];

/// A malformed namespace or attribute name: the fixed menu, or a long one (55..=140 bytes) with a
/// multi-byte character at a drawn position (names end up in error messages and buffers).
fn bad_name(r: &mut Rng) -> String {
    if r.chance(2, 3) {
        return r.pick(&BAD_NAMES).to_string();
    }
    let lead = *r.pick(&[55usize, 60, 61, 62, 63, 64, 65, 66, 70, 126, 127, 128, 129]);
    let mut s = "a".repeat(lead);
    s.push(*r.pick(&['\u{e4}', '\u{20ac}', '\u{1d11e}', '.', ' ']));
    let tail = r.usize_below(12);
    for _ in 0..tail {
        s.push(*r.pick(&['b', '\u{e4}', '_', '\u{20ac}']));
    }
    s
}

/// the same name with the case of its ASCII letters flipped (None if that changes nothing)
fn case_flipped(s: &str) -> Option<String> {
    let f: String = s.chars().map(|c| if c.is_ascii_lowercase() { c.to_ascii_uppercase() } else { c.to_ascii_lowercase() }).collect();
    if f != s {
        Some(f)
    } else {
        None
    }
}

/// Turn a rule-conforming prototype into a degenerate or rule-breaking one.
fn bad_proto(r: &mut Rng, proto: &[Rec], registered: &[String], allow_f10: bool) -> Vec<Rec> {
    use std_name::*;
    let mut p = proto.to_vec();
    let pos = |p: &Vec<Rec>, i: u8| p.iter().position(|x| x.name == Name::Std(i));
    match r.below(16) {
        0 if r.chance(1, 2) => {
            // one component of a triple twice and another one missing (same record count as a complete triple)
            let triples: Vec<[u8; 3]> = [[CX, CY, CZ], [SR, SA, SE], [RED, GREEN, BLUE]].into_iter().filter(|t| pos(&p, t[0]).is_some() && pos(&p, t[1]).is_some() && pos(&p, t[2]).is_some()).collect();
            if let Some(t) = triples.first() {
                let a = r.usize_below(3);
                let b = (a + 1 + r.usize_below(2)) % 3;
                if let (Some(ia), Some(ib)) = (pos(&p, t[a]), pos(&p, t[b])) {
                    let dup = p[ia].clone();
                    p[ib] = dup;
                }
            }
        }
        0 if !registered.is_empty() && r.chance(1, 3) => {
            // one component of a triple or pair replaced by an extension attribute with exactly
            // the missing standard tag name: the standard attribute is still missing
            let groups: Vec<Vec<u8>> = vec![vec![CX, CY, CZ], vec![SR, SA, SE], vec![RED, GREEN, BLUE], vec![RCOUNT, RINDEX]];
            let present: Vec<&Vec<u8>> = groups.iter().filter(|g| g.iter().all(|i| pos(&p, *i).is_some())).collect();
            if let Some(g) = present.first() {
                let victim = *r.pick(g);
                if let Some(i) = pos(&p, victim) {
                    let dt = p[i].dt.clone();
                    p[i] = Rec { name: Name::Ext { ns: registered[0].clone(), name: STD_NAMES[victim as usize].to_string() }, dt };
                }
            } else {
                p.retain(|x| !matches!(x.name, Name::Std(i) if i == CY));
                p.push(Rec { name: Name::Ext { ns: registered[0].clone(), name: "cartesianY".into() }, dt: DType::Double { min: None, max: None } });
            }
        }
        0 => {
            // drop one coordinate component
            let coords: Vec<usize> = p.iter().enumerate().filter(|(_, x)| matches!(x.name, Name::Std(i) if i <= CZ || (SR..=SE).contains(&i))).map(|(i, _)| i).collect();
            if !coords.is_empty() {
                let i = *r.pick(&coords);
                p.remove(i);
            }
        }
        1 => p.retain(|x| !matches!(x.name, Name::Std(i) if i <= CINV || (SR..=SINV).contains(&i))),
        2 => {
            // wrong invalid-state type
            let dt = match r.below(3) {
                0 => DType::Int { min: 0, max: 1 },
                1 => DType::Single { min: None, max: None },
                _ => DType::Int { min: 0, max: 255 },
            };
            if pos(&p, CX).is_some() {
                p.retain(|x| x.name != Name::Std(CINV));
                p.push(Rec { name: Name::Std(CINV), dt });
            } else {
                p.retain(|x| x.name != Name::Std(SINV));
                p.push(Rec { name: Name::Std(SINV), dt });
            }
        }
        3 => {
            if let Some(i) = pos(&p, SA).or(pos(&p, SE)) {
                p[i].dt = DType::Int { min: -100, max: 100 };
            } else {
                p.push(Rec { name: Name::Std(SA), dt: DType::Double { min: None, max: None } });
            }
        }
        4 => {
            p.retain(|x| x.name != Name::Std(ROW));
            p.push(Rec { name: Name::Std(ROW), dt: if r.chance(1, 2) { DType::Double { min: None, max: None } } else { DType::Scaled { min: 0, max: 100, scale: B64::of(1.0), offset: B64::of(0.0) } } });
        }
        5 => {
            p.retain(|x| x.name != Name::Std(RCOUNT) && x.name != Name::Std(RINDEX));
            p.push(Rec { name: Name::Std(if r.chance(1, 2) { RINDEX } else { RCOUNT }), dt: DType::Int { min: 0, max: 7 } });
        }
        6 => {
            // invalid-state flag without its attribute
            let (flag, attr) = *r.pick(&[(IINV, INT), (TINV, TIME), (COLINV, RED)]);
            p.retain(|x| x.name != Name::Std(attr) && x.name != Name::Std(flag));
            if attr == RED {
                p.retain(|x| x.name != Name::Std(GREEN) && x.name != Name::Std(BLUE));
            }
            p.push(Rec { name: Name::Std(flag), dt: DType::Int { min: 0, max: 1 } });
        }
        7 => {
            // incomplete colour
            p.retain(|x| !matches!(x.name, Name::Std(i) if (RED..=COLINV).contains(&i)));
            p.push(Rec { name: Name::Std(RED), dt: DType::Int { min: 0, max: 255 } });
            if r.chance(1, 2) {
                p.push(Rec { name: Name::Std(BLUE), dt: DType::Int { min: 0, max: 255 } });
            }
        }
        8 => {
            // extension attribute with unregistered namespace or malformed name
            let (ns, name) = match r.below(5) {
                0 => ("unreg".to_string(), "attr".to_string()),
                1 => (registered.first().cloned().unwrap_or_else(|| "unreg".into()), bad_name(r)),
                2 => (bad_name(r), "attr".to_string()),
                _ => {
                    // differs from a registered namespace only in letter case, by one character
                    // at the end, or is a prefix of it: not registered
                    let near: Vec<String> = registered
                        .iter()
                        .flat_map(|n| {
                            let mut v = vec![format!("{n}1"), format!("{n}_")];
                            v.extend(case_flipped(n));
                            if n.len() > 1 {
                                v.push(n[..n.len() - 1].to_string());
                            }
                            v
                        })
                        .filter(|n| !registered.contains(n) && n.is_ascii() && !n.to_ascii_lowercase().starts_with("xml"))
                        .collect();
                    if near.is_empty() {
                        ("unreg".to_string(), "attr".to_string())
                    } else {
                        (r.pick(&near).clone(), "attr".to_string())
                    }
                }
            };
            p.push(Rec { name: Name::Ext { ns, name }, dt: DType::Int { min: 0, max: 9 } });
        }
        9 => {
            // duplicate record name (unspecified)
            let i = r.usize_below(p.len());
            let dup = p[i].clone();
            p.push(dup);
        }
        10 => {
            // every record with minimum = maximum (unspecified)
            for x in p.iter_mut() {
                x.dt = if matches!(x.name, Name::Std(i) if i == SA || i == SE) {
                    DType::Scaled { min: 3, max: 3, scale: B64::of(0.5), offset: B64::of(0.0) }
                } else {
                    DType::Int { min: 7, max: 7 }
                };
            }
            // keep invalid-state records rule-conforming by removing them
            p.retain(|x| !matches!(x.name, Name::Std(i) if [CINV, SINV, IINV, COLINV, TINV].contains(&i)));
        }
        11 => {
            // minimum > maximum (unspecified)
            let idx: Vec<usize> = (0..p.len()).filter(|i| matches!(p[*i].dt, DType::Int { .. } | DType::Scaled { .. }) && !matches!(p[*i].name, Name::Std(k) if [CINV, SINV, IINV, COLINV, TINV].contains(&k))).collect();
            if let Some(i) = idx.first() {
                p[*i].dt = match &p[*i].dt {
                    DType::Scaled { scale, offset, .. } => DType::Scaled { min: 10, max: -10, scale: *scale, offset: *offset },
                    _ => DType::Int { min: 10, max: -10 },
                };
            } else {
                p.push(Rec { name: Name::Std(TIME), dt: DType::Int { min: 5, max: 4 } });
            }
        }
        12 => {
            // non-finite or zero scale (unspecified)
            let s = *r.pick(&[f64::NAN, f64::INFINITY, 0.0, f64::NEG_INFINITY]);
            p.retain(|x| x.name != Name::Std(TIME) && x.name != Name::Std(TINV));
            p.push(Rec { name: Name::Std(TIME), dt: DType::Scaled { min: 0, max: 1000, scale: B64::of(s), offset: B64::of(if r.chance(1, 2) { 0.0 } else { f64::NAN }) } });
        }
        13 => {
            // float limits reversed or NaN (unspecified)
            p.retain(|x| x.name != Name::Std(TIME) && x.name != Name::Std(TINV));
            p.push(Rec {
                name: Name::Std(TIME),
                dt: if r.chance(1, 2) { DType::Double { min: Some(B64::of(5.0)), max: Some(B64::of(-5.0)) } } else { DType::Single { min: Some(B32::of(f32::NAN)), max: None } },
            });
        }
        14 => {
            if allow_f10 && !registered.is_empty() {
                p.push(Rec { name: Name::Ext { ns: registered[0].clone(), name: r.pick(&NON_NCNAME).to_string() }, dt: DType::Int { min: 0, max: 9 } });
            } else {
                p.clear();
            }
        }
        _ => {
            // huge prototype: ~22000 one-byte extension records (rare; needs a registered namespace)
            if !registered.is_empty() && r.chance(1, 6) {
                let ns = registered[0].clone();
                let n = 21_600 + r.usize_below(200);
                for i in 0..n {
                    p.push(Rec { name: Name::Ext { ns: ns.clone(), name: format!("a{i}") }, dt: DType::Int { min: 0, max: 255 } });
                }
            } else {
                p.clear();
            }
        }
    }
    p
}

pub fn gen_c10(rc: &RunCtx, allow_f10: bool) -> WriterCase {
    let mut g = Rng::stream(rc.run_seed, "cfg");
    let cfg = ProgCfg {
        max_items: 5,
        knob: if g.chance(1, 8) { None } else { Some(*g.pick(&KNOBS)) },
        placement_residue: if g.chance(1, 3) { Some((g.below(255) * 4) as u32) } else { None },
        nasty_strings: true,
        ext: true,
        allow_abandon: true,
        max_points_knob_off: 3000,
        custom_xml: true,
        small: false,
        big_permille: 5,
    };
    let mut prog = gen_program(rc.run_seed, &cfg);
    let mut r = Rng::stream(rc.run_seed, "invalid");
    let mut ch = Rng::stream(rc.run_seed, "chunk2");
    let registered: Vec<String> = prog.calls.iter().filter_map(|c| if let Call::RegisterExt { ns, .. } = c { Some(ns.clone()) } else { None }).collect();
    // invalid points inside existing clouds
    for call in prog.calls.iter_mut() {
        if let Call::Pc { proto, steps, .. } = call {
            if r.chance(1, 2) {
                // explicit points mixed with invalid ones; the bulk generator would hide neighbours
                let n = 1 + r.usize_below(6);
                for _ in 0..n {
                    let pos = r.usize_below(steps.len() + 1);
                    let p = bad_point(&mut r, proto);
                    steps.insert(pos, PcStep::Point(p));
                }
            }
        }
    }
    // invalid or degenerate prototypes as additional clouds
    let extra = r.below(3);
    for _ in 0..extra {
        let base = gen_proto(&mut r, &ProtoCfg { ext_ns: registered.clone(), max_records: 30, std_like_ext_names: false });
        let proto = bad_proto(&mut r, &base, &registered, allow_f10);
        let mut steps = Vec::new();
        let n = r.usize_below(4);
        for _ in 0..n {
            // values generated for the (possibly broken) prototype itself: accepted iff the prototype is
            if proto.len() < 100 {
                steps.push(PcStep::Point(proto.iter().map(|rec| match &rec.dt {
                    DType::Int { min, max } if min > max => Val::I(*min),
                    DType::Scaled { min, max, .. } if min > max => Val::SI(*min),
                    dt => gen_value(&mut r, dt),
                }).collect()));
            }
        }
        let pos = r.usize_below(prog.calls.len() + 1);
        // keep RegisterExt calls in front of their users
        let pos = pos.max(prog.calls.iter().rposition(|c| matches!(c, Call::RegisterExt { .. })).map(|p| p + 1).unwrap_or(0));
        prog.calls.insert(pos, Call::Pc { guid: gen_guid(&mut r), proto, steps, end: if r.chance(1, 6) { SubEnd::Abandon } else { SubEnd::Finalize } });
    }
    // invalid extension registrations
    if r.chance(1, 3) {
        let ns = match r.below(4) {
            0 => bad_name(&mut r),
            1 => registered.first().cloned().unwrap_or_else(|| "ext".into()),
            // a second, distinct prefix that differs from a registered one only in letter case
            2 => registered.first().and_then(|n| case_flipped(n)).unwrap_or_else(|| "Ext".into()),
            _ => {
                if allow_f10 {
                    r.pick(&NON_NCNAME).to_string()
                } else {
                    "fine_name".to_string()
                }
            }
        };
        let pos = r.usize_below(prog.calls.len() + 1);
        prog.calls.insert(pos, Call::RegisterExt { ns, url: "http://example.org/extra?x=<1>&y=\"2\"".into() });
    }
    // images without representation / with two projections
    if r.chance(1, 3) {
        let mut steps = Vec::new();
        match r.below(3) {
            0 => {}
            1 => {
                steps.push(ImgStep::Rep(gen_rep(&mut r, RepKind::Pinhole, &mut ch)));
                steps.push(ImgStep::Rep(gen_rep(&mut r, RepKind::Spherical, &mut ch)));
            }
            _ => {
                steps.push(ImgStep::Rep(gen_rep(&mut r, RepKind::Visual, &mut ch)));
                steps.push(ImgStep::Rep(gen_rep(&mut r, RepKind::Visual, &mut ch)));
                steps.push(ImgStep::Rep(gen_rep(&mut r, RepKind::Cylindrical, &mut ch)));
                steps.push(ImgStep::Rep(gen_rep(&mut r, RepKind::Cylindrical, &mut ch)));
            }
        }
        for s in steps.iter_mut() {
            if let ImgStep::Rep(rep) = s {
                rep.data.len %= 1500;
                if let Some(m) = rep.mask.as_mut() {
                    m.len %= 1200;
                }
            }
        }
        let pos = r.usize_below(prog.calls.len() + 1);
        prog.calls.insert(pos, Call::Img { guid: gen_guid(&mut r), steps, end: SubEnd::Finalize });
    }
    if r.chance(1, 25) {
        prog.guid = String::new();
    }
    if r.chance(1, 25) {
        prog.end = End::FinalizeXml(XmlScript::Fail);
    }
    let (wchunk, rchunk, sink) = draw_chunks(rc.run_seed);
    WriterCase { prog, wchunk, rchunk, sink, legacy_blob_headers: false }
}

fn uses_non_ncname(prog: &Program) -> bool {
    prog.calls.iter().any(|c| match c {
        Call::RegisterExt { ns, .. } => non_ncname_start(ns) && valid_ext_name(ns),
        Call::Pc { proto, .. } => proto.iter().any(|r| matches!(&r.name, Name::Ext { ns, name } if valid_ext_name(ns) && valid_ext_name(name) && (non_ncname_start(ns) || non_ncname_start(name)))),
        _ => false,
    })
}

impl Prop for C10 {
    type Case = WriterCase;
    fn id(&self) -> &'static str {
        "C10"
    }
    fn meta(&self) -> Meta {
        Meta {
            level: "exploration",
            rule: "seeded writer programs (C01 generator with the full metadata string pool, abandoned point-cloud and image writers, custom XML transformers) into which calls are injected that the scene model classifies as MUST REJECT (arity/type mismatch, integer outside minimum..maximum incl. values that alias a valid one after bit masking, prototypes breaking the documented rules: incomplete coordinate/colour triples, no coordinates, wrong invalid-state type, integer azimuth/elevation, non-integer row/column/return, lone return index, invalid-state without its attribute, unregistered/empty/xml-prefixed/ill-charactered extension names, duplicate namespace, image without representation, second projection, empty file GUID, failing transformer), MUST ACCEPT, or UNSPECIFIED (duplicate record names, every record min = max, minimum > maximum, non-finite scale, reversed float limits, ~22000-record prototypes: either way, but if accepted the file must read back). Oracle: no call panics; must-reject => Err; must-accept => Ok; whenever every call up to and including finalize succeeded the image passes refcodec's fsck, decodes to exactly the accepted content (rejected items leave no trace in counts, neighbours, blobs, item lists) and reads back identically through the crate's reader (points, blobs, metadata). Distinct = C01 fingerprint; non-trivial = at least one injected invalid or unspecified call".into(),
            assumptions: vec![
                "programs stop at the first call that fails although the model expects success".into(),
                "bounds are not compared (C14; a point rejected at record i has already widened bounds of earlier records)".into(),
                "known finding F10 (extension names starting with a digit or '-') is excluded from random generation and exercised by one fixed regression input".into(),
            ],
            real: vec!["e57 crate writer and reader paths".into()],
            stub: vec!["SimDisk".into(), "SimPipe".into(), "scene model with tri-state call classification".into(), "refcodec fsck/decoder".into()],
            required_probes: vec!["must_reject_call_rejected".into(), "unspecified_call_accepted".into(), "unspecified_call_rejected".into(), "abandoned_subwriter".into(), "file_read_back_after_rejections".into()],
        }
    }
    fn preflight(&self) -> Result<(), String> {
        refcodec::calibrate(false).map(|_| ())
    }
    fn plan(&self, tier: Tier) -> Plan {
        match tier {
            Tier::Quick => Plan { runs: 6000, time_box_s: None, isolation: Isolation::Threads },
            Tier::Thorough => Plan { runs: 1_500_000, time_box_s: Some(480), isolation: Isolation::Threads },
        }
    }
    fn generate(&self, rc: &RunCtx) -> WriterCase {
        gen_c10(rc, false)
    }
    fn execute(&self, case: &WriterCase, st: &mut RunStats) -> Outcome<WriterCase> {
        st.evaluations = 1;
        let w = write_case(case);
        st.absorb_ctx(&w.ctx);
        if let Some((class, detail)) = call_contradiction(&w.exec) {
            return Outcome::fail(class, detail);
        }
        let rejected = w.exec.calls.iter().filter(|c| c.expect == Expect::MustReject && !c.ok).count();
        let unspec_ok = w.exec.calls.iter().filter(|c| c.expect == Expect::Unspec && c.ok).count();
        let unspec_err = w.exec.calls.iter().filter(|c| c.expect == Expect::Unspec && !c.ok).count();
        st.probe("must_reject_call_rejected", rejected > 0);
        st.probe("unspecified_call_accepted", unspec_ok > 0);
        st.probe("unspecified_call_rejected", unspec_err > 0);
        st.probe("abandoned_subwriter", case.prog.calls.iter().any(|c| matches!(c, Call::Pc { end: SubEnd::Abandon, .. } | Call::Img { end: SubEnd::Abandon, .. })));
        if w.exec.completed {
            if let Some((class, detail)) = judge_image(&w.image, &w.exec) {
                return Outcome::fail(class, detail);
            }
            let rb = match read_back(&w.image, &w.ctx, &case.rchunk, &case.sink, &w.exec.blob_descs) {
                Ok(rb) => rb,
                Err(e) => return Outcome::fail("reopen-failed", format!("all calls succeeded but the file does not open: {e}")),
            };
            if let Some((class, detail)) = compare_points(&rb.file, &w.exec.expected.file) {
                return Outcome::fail(class, detail);
            }
            if let Some((class, detail)) = compare_blobs(&rb, &w.exec.expected) {
                return Outcome::fail(class, detail);
            }
            if let Some((class, detail)) = compare_metadata(&rb.file, &w.exec.expected.file) {
                return Outcome::fail(class, detail);
            }
            st.probe("file_read_back_after_rejections", rejected > 0);
            if rejected + unspec_ok + unspec_err > 0 {
                st.fingerprint(shape_fingerprint(case, Some(&rb)));
            }
        }
        let mut dg = crate::rng::Digest::new();
        dg.bytes(&w.image);
        for c in &w.exec.calls {
            dg.u64(c.ok as u64);
        }
        st.digest = dg.finish();
        if st.sample.is_none() && rejected > 0 {
            st.sample = Some(sample_of(case, &w.exec, w.image.len()));
        }
        Outcome::Held
    }
    fn shrink(&self, case: &WriterCase) -> Vec<WriterCase> {
        let mut out = shrink_writer_case(case);
        // simplify strings: replace metadata setters wholesale by dropping them is covered by step removal
        if case.prog.guid.len() > 1 {
            let mut c = case.clone();
            c.prog.guid = "g".into();
            out.push(c);
        }
        out
    }
    fn known_finding(&self, case: &WriterCase, v: &Violation) -> Option<&'static str> {
        if uses_non_ncname(&case.prog) && (v.class == "reopen-failed" || v.class == "fsck-xml-ill-formed") {
            return Some("F10");
        }
        None
    }
    fn regressions(&self) -> Vec<(String, WriterCase)> {
        let proto = vec![
            Rec { name: Name::Std(0), dt: DType::Single { min: None, max: None } },
            Rec { name: Name::Std(1), dt: DType::Single { min: None, max: None } },
            Rec { name: Name::Std(2), dt: DType::Single { min: None, max: None } },
        ];
        let f10 = WriterCase {
            prog: Program {
                guid: "file".into(),
                calls: vec![
                    Call::RegisterExt { ns: "0129".into(), url: "http://example.org/e57/ext".into() },
                    Call::Pc { guid: "pc".into(), proto: proto.clone(), steps: vec![PcStep::Points { n: 2, seed: 1 }], end: SubEnd::Finalize },
                ],
                end: End::Finalize,
                knob: None,
                on_error: OnError::Stop,
            },
            wchunk: Chunk::Full,
            rchunk: Chunk::Full,
            sink: Chunk::Full,
            legacy_blob_headers: false,
        };
        vec![("F10 extension namespace '0129' starts with a digit".into(), f10)]
    }
}
