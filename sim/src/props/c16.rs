//! C16 – device faults surface as errors; short I/O changes nothing.
//!
//! a) chunking: the same program / history under K transfer schedules gives byte-identical images
//!    and identical results. b) single error: for every position of the fault-free device
//!    operation sequence and every error flavour, re-run with exactly that fault.

use super::writer_rt::*;
use crate::gen::*;
use crate::history::*;
use crate::program::*;
use crate::rng::{Digest, Rng};
use crate::runner::*;
use crate::simdisk::*;
use serde::{Deserialize, Serialize};
use serde_json::json;

#[derive(Clone, Copy, Debug, PartialEq, Serialize, Deserialize)]
pub enum Target {
    Writer,
    Reader,
}

#[derive(Clone, Debug, Serialize, Deserialize)]
pub enum Mode {
    Chunking { schedules: Vec<Chunk> },
    /// point = None: enumerate every operation x flavour; Some: exactly that fault
    Faults { target: Target, point: Option<Fault> },
}

#[derive(Clone, Debug, Serialize, Deserialize)]
pub struct Case {
    pub prog: Program,
    pub wchunk: Chunk,
    pub rchunk: Chunk,
    pub mode: Mode,
    /// writer target: every fault is also met by callers that go on after the failed call
    #[serde(default)]
    pub persistent: bool,
}

pub struct C16;

fn with_pipes(p: &Program, c: &Chunk) -> Program {
    let mut q = p.clone();
    for call in q.calls.iter_mut() {
        match call {
            Call::Blob { pipe, .. } => *pipe = c.clone(),
            Call::Img { steps, .. } => {
                for s in steps.iter_mut() {
                    if let ImgStep::Rep(r) = s {
                        r.pipe = c.clone();
                    }
                }
            }
            _ => {}
        }
    }
    q
}

/// Put a filler blob in front of the program, sized so that a data packet that is written from
/// inside add_point (not the last packet of its cloud) ends exactly at the end of a page payload:
/// the page write is then the last thing the page layer does in that call.
fn tune_packet_end_to_page_end(prog: &mut Program) -> bool {
    for l in (0..1020usize).step_by(4) {
        let mut p = prog.clone();
        p.calls.insert(0, Call::Blob { data: crate::model::Bytes { len: l, seed: 17, pat: 0 }, pipe: Chunk::Full, fail_after: None });
        let image = match super::c17::make_source(&p) {
            Ok((i, _)) => i,
            Err(_) => return false,
        };
        if let Some(map) = crate::corrupt::map_of(&image) {
            let hit = map.cvs.iter().any(|cv| {
                let data: Vec<&crate::refcodec::decode::PacketInfo> = cv.packets.iter().filter(|k| k.kind == 1).collect();
                data.len() > 1 && data[..data.len() - 1].iter().any(|k| (k.logical + k.length as u64) % 1020 == 0)
            });
            if hit {
                *prog = p;
                return true;
            }
        }
    }
    false
}

fn flavours(op: &DevOp) -> Vec<FaultKind> {
    match op.kind {
        OpKind::Read => vec![
            FaultKind::Error,
            FaultKind::Transient { kind: (op.no % 6) as u8 },
            FaultKind::Transient { kind: 2 },
            FaultKind::ShortThenError { bytes: 1 },
            FaultKind::ShortThenError { bytes: (op.want / 2).max(1) as u32 },
            FaultKind::Interrupted,
        ],
        OpKind::Write => vec![
            FaultKind::Error,
            FaultKind::Transient { kind: (op.no % 6) as u8 },
            FaultKind::ShortThenError { bytes: (op.want / 2).max(1) as u32 },
            FaultKind::Interrupted,
            FaultKind::WriteZero,
            FaultKind::NoSpace,
        ],
        // EINTR from a seek or a flush is legal too: std retries the enclosing read/write call, so the
        // page layer must either restart cleanly or refuse (round 10: C16-13, C06-13)
        OpKind::Seek | OpKind::Flush => vec![FaultKind::Error, FaultKind::Transient { kind: (op.no % 6) as u8 }, FaultKind::Interrupted],
    }
}

fn label_class(l: &str) -> String {
    l.chars().filter(|c| !c.is_ascii_digit()).collect()
}

struct WriterRef {
    image: Vec<u8>,
    log: Vec<DevOp>,
}

fn writer_run(case: &Case, faults: Vec<Fault>, record: bool) -> (Executed, Vec<u8>, Ctx, SimDisk) {
    let ctx = new_ctx(faults);
    ctx.borrow_mut().record_ops = record;
    let disk = SimDisk::new(&ctx, DEV_DISK, Vec::new(), &case.wchunk);
    let exec = exec_program(&case.prog, &ctx, &disk);
    let image = disk.image();
    (exec, image, ctx, disk)
}

/// Oracle for one faulty writer run. Returns Some((class, detail)) on violation.
fn judge_writer(exec: &Executed, image: &[u8], ctx: &Ctx, disk: &SimDisk, reference: &WriterRef, st: &mut RunStats) -> Option<(String, String)> {
    let c = ctx.borrow();
    let mut any_hard = false;
    for op in c.log.iter().filter(|o| o.err != 0) {
        let in_drop = op.no >= exec.drop_op_from;
        if in_drop {
            st.probe("error_during_drop", true);
            continue;
        }
        let call = exec.calls.iter().find(|cl| cl.op_from <= op.no && op.no < cl.op_to);
        let call = match call {
            Some(cl) => cl,
            None => return Some(("fault-outside-call".into(), format!("device op {} failed outside any API call and outside Drop", op.no))),
        };
        if op.err == 2 {
            if call.ok {
                st.probe("eintr_absorbed", true);
            } else {
                st.probe("eintr_surfaced", true);
            }
            continue;
        }
        any_hard = true;
        if call.ok {
            return Some((
                "device-error-swallowed".into(),
                format!(
                    "device {} op #{} ({} at offset {}) failed{} but {} returned Ok",
                    if op.dev >= DEV_PIPE { "pipe" } else { "disk" },
                    op.no,
                    op.kind.name(),
                    op.offset,
                    if op.err == 3 { " (write returned 0)" } else { "" },
                    call.label
                ),
            ));
        }
        st.probe("hard_error_surfaced", true);
    }
    if exec.completed {
        if image != reference.image.as_slice() {
            let pos = image.iter().zip(reference.image.iter()).position(|(a, b)| a != b);
            return Some((
                "ok-but-different-image".into(),
                format!(
                    "top-level finalize returned Ok but the device image ({} bytes) differs from the fault-free image ({} bytes), first difference at {pos:?}; faults fired: {:?}",
                    image.len(),
                    reference.image.len(),
                    c.fired.iter().map(|f| format!("{}@{}:{}", f.name, f.no, f.op.name())).collect::<Vec<_>>()
                ),
            ));
        }
        let _ = (disk, any_hard);
        if exec.dirty_after_finalize {
            return Some(("ok-but-unflushed".into(), "top-level finalize returned Ok but the device has unflushed writes".into()));
        }
    }
    None
}

/// Oracle for a caller that goes on after a failed call (OnError::Continue / RetryFinalize): errors
/// still surface, and if the top-level finalize reports success the device holds a complete file:
/// it opens, and everything whose calls all succeeded reads back as handed in.
fn judge_persistent(exec: &Executed, image: &[u8], ctx: &Ctx, st: &mut RunStats) -> Option<(String, String)> {
    {
        let c = ctx.borrow();
        for op in c.log.iter().filter(|o| o.err == 1 || o.err == 3) {
            if op.no >= exec.drop_op_from {
                continue;
            }
            match exec.calls.iter().find(|cl| cl.op_from <= op.no && op.no < cl.op_to) {
                Some(cl) if cl.ok => {
                    return Some(("device-error-swallowed".into(), format!("device op #{} ({} at offset {}) failed but {} returned Ok", op.no, op.kind.name(), op.offset, cl.label)));
                }
                Some(_) => {}
                None => return Some(("fault-outside-call".into(), format!("device op {} failed outside any API call and outside Drop", op.no))),
            }
        }
    }
    if !exec.completed {
        st.probe("finalize_fails_after_earlier_failure", exec.first_failure.is_some());
        return None;
    }
    st.probe("finalize_ok_after_earlier_failure", exec.first_failure.is_some());
    if exec.dirty_after_finalize {
        return Some(("ok-but-unflushed".into(), "top-level finalize returned Ok but the device has unflushed writes".into()));
    }
    let rctx = new_ctx(vec![]);
    let rb = match read_back(image, &rctx, &Chunk::Full, &Chunk::Full, &exec.blob_descs) {
        Ok(rb) => rb,
        Err(e) => {
            return Some((
                "ok-but-incomplete-file".into(),
                format!("the caller went on after a failed call; top-level finalize then returned Ok, but the file on the device does not open or read: {e}"),
            ))
        }
    };
    if let Some((class, detail)) = compare_points(&rb.file, &exec.expected.file).or_else(|| compare_blobs(&rb, &exec.expected)).or_else(|| compare_metadata(&rb.file, &exec.expected.file)) {
        return Some((
            "ok-but-incomplete-file".into(),
            format!("the caller went on after a failed call; top-level finalize then returned Ok, but what the successful calls handed in does not read back ({class}): {detail}"),
        ));
    }
    None
}

fn judge_reader(run: &ReaderRun, reference: &ReaderRun, ctx: &Ctx, st: &mut RunStats) -> Option<(String, String)> {
    let c = ctx.borrow();
    for op in c.log.iter().filter(|o| o.err != 0) {
        // which API call was in progress?
        let mut found: Option<(String, bool, bool)> = None; // (label, returned Ok, equals reference)
        if let Some((a, b, r)) = &run.validate {
            if *a <= op.no && op.no < *b {
                let same = match (&reference.validate, r) {
                    (Some((_, _, Ok(x))), Ok(y)) => x == y,
                    _ => false,
                };
                found = Some(("validate_crc".into(), r.is_ok(), same));
            }
        }
        if let Some((a, b, r)) = &run.raw_xml {
            if *a <= op.no && op.no < *b {
                let same = match (&reference.raw_xml, r) {
                    (Some((_, _, Ok(x))), Ok(y)) => x == y,
                    _ => false,
                };
                found = Some(("raw_xml".into(), r.is_ok(), same));
            }
        }
        if run.open_range.0 <= op.no && op.no < run.open_range.1 {
            found = Some(("E57Reader::new".into(), run.open.is_ok(), run.open.is_ok()));
        }
        for (i, rec) in run.recs.iter().enumerate() {
            if rec.op_from <= op.no && op.no < rec.op_to {
                let same = reference.recs.get(i).map(|r| rec.result.same_as(&r.result)).unwrap_or(false);
                found = Some((format!("history op #{i} {}", rec.result.brief()), !rec.result.is_err(), same));
            }
        }
        let (label, ok, same) = match found {
            Some(f) => f,
            None => return Some(("fault-outside-call".into(), format!("device op {} failed outside any API call", op.no))),
        };
        if op.err == 2 {
            if ok {
                st.probe("eintr_absorbed", true);
                if !same {
                    return Some(("eintr-changed-result".into(), format!("EINTR at device op #{} was absorbed by {label} but its result differs from the fault-free result", op.no)));
                }
            } else {
                st.probe("eintr_surfaced", true);
            }
            continue;
        }
        if ok {
            return Some((
                "device-error-swallowed".into(),
                format!("device op #{} ({} at offset {}) failed but {label} returned Ok", op.no, op.kind.name(), op.offset),
            ));
        }
        st.probe("hard_error_surfaced", true);
    }
    // operations that met no failing device operation: the values read are those of the
    // fault-free session, also behind a failed operation on the same reader
    if run.open.is_ok() {
        for (i, rec) in run.recs.iter().enumerate() {
            let hit = c.log.iter().any(|o| o.err != 0 && rec.op_from <= o.no && o.no < rec.op_to);
            if hit {
                continue;
            }
            if let Some(r) = reference.recs.get(i) {
                if !rec.result.same_as(&r.result) {
                    return Some((
                        "result-differs-behind-fault".into(),
                        format!("history op #{i} met no device error but gives {}, in the fault-free session {}", rec.result.brief(), r.result.brief()),
                    ));
                }
            }
        }
    }
    None
}

fn prog_fp(case: &Case) -> u64 {
    let wc = WriterCase { prog: case.prog.clone(), wchunk: case.wchunk.clone(), rchunk: case.rchunk.clone(), sink: Chunk::Full, legacy_blob_headers: false };
    shape_fingerprint(&wc, None)
}

fn run_chunking(case: &Case, schedules: &[Chunk], st: &mut RunStats) -> Outcome<Case> {
    set_poll_after_error(false);
    let base = Case { wchunk: Chunk::Full, prog: with_pipes(&case.prog, &Chunk::Full), ..case.clone() };
    let (exec0, image0, ctx0, _d0) = writer_run(&base, vec![], false);
    st.absorb_ctx(&ctx0);
    if let Some((class, detail)) = call_contradiction(&exec0) {
        return Outcome::fail(class, detail);
    }
    let hist = full_history(exec0.expected.file.pcs.len(), 64, true);
    let rctx = new_ctx(vec![]);
    let ref_run = reader_run(&image0, &rctx, &Chunk::Full, &exec0.blob_descs, &hist, true);
    let hist = full_history(ref_run.n_pcs, ref_run.n_blobs, true);
    let ref_run = reader_run(&image0, &rctx, &Chunk::Full, &exec0.blob_descs, &hist, true);
    let mut dg = Digest::new();
    dg.bytes(&image0);
    for s in schedules {
        st.evaluations += 1;
        let c = Case { wchunk: s.clone(), prog: with_pipes(&case.prog, s), ..case.clone() };
        let (exec, image, ctx, disk) = writer_run(&c, vec![], false);
        st.absorb_ctx(&ctx);
        st.probe("short_writes_happened", disk.short_transfers() > 0);
        if let Some((class, detail)) = call_contradiction(&exec) {
            return Outcome::fail(format!("chunked-{class}"), format!("under device schedule {}: {detail}", s.name()));
        }
        if image != image0 {
            let pos = image.iter().zip(image0.iter()).position(|(a, b)| a != b);
            return Outcome::fail(
                "chunking-changes-image",
                format!("device schedule {} produced a different file ({} vs {} bytes, first difference at {pos:?})", s.name(), image.len(), image0.len()),
            );
        }
        // reader side under the same schedule (device and sinks)
        let h2: Vec<ROp> = hist
            .iter()
            .map(|op| match op {
                ROp::Blob { which, .. } => ROp::Blob { which: *which, sink: s.clone() },
                o => o.clone(),
            })
            .collect();
        let rctx2 = new_ctx(vec![]);
        let run = reader_run(&image0, &rctx2, s, &exec0.blob_descs, &h2, true);
        st.absorb_ctx(&rctx2);
        if run.open.is_ok() != ref_run.open.is_ok() {
            return Outcome::fail("chunking-changes-open", format!("E57Reader::new under read schedule {}: {:?} vs {:?}", s.name(), run.open, ref_run.open));
        }
        let vsame = match (&run.validate, &ref_run.validate) {
            (Some((_, _, a)), Some((_, _, b))) => a.is_ok() == b.is_ok(),
            _ => true,
        };
        let xsame = match (&run.raw_xml, &ref_run.raw_xml) {
            (Some((_, _, a)), Some((_, _, b))) => a.as_ref().ok() == b.as_ref().ok(),
            _ => true,
        };
        if !vsame || !xsame {
            return Outcome::fail("chunking-changes-static", format!("validate_crc/raw_xml differ under read schedule {}", s.name()));
        }
        for (i, (a, b)) in run.recs.iter().zip(ref_run.recs.iter()).enumerate() {
            if !a.result.same_as(&b.result) {
                return Outcome::fail(
                    "chunking-changes-read",
                    format!("history op #{i} under read schedule {}: {} vs {} with full transfers", s.name(), a.result.brief(), b.result.brief()),
                );
            }
            a.result.digest(&mut dg);
        }
    }
    st.digest = dg.finish();
    if image0.len() > 1024 {
        let mut fp = Digest::new();
        fp.u64(prog_fp(case));
        for s in schedules {
            fp.str(s.name());
        }
        st.fingerprint(fp.finish());
    }
    if st.sample.is_none() {
        st.sample = Some(json!({"mode": "chunking", "schedules": schedules.iter().map(|s| s.name()).collect::<Vec<_>>(),
            "calls": exec0.calls.iter().take(10).map(|c| c.label.clone()).collect::<Vec<_>>(), "image_bytes": image0.len()}));
    }
    Outcome::Held
}

fn run_faults(case: &Case, target: Target, point: &Option<Fault>, st: &mut RunStats) -> Outcome<Case> {
    set_poll_after_error(true);
    // fault-free reference with the operation log
    let (exec0, image0, ctx0, _d0) = writer_run(case, vec![], true);
    st.absorb_ctx(&ctx0);
    if let Some((class, detail)) = call_contradiction(&exec0) {
        return Outcome::fail(class, detail);
    }
    let fp_base = prog_fp(case);
    let mut dg = Digest::new();
    dg.bytes(&image0);
    match target {
        Target::Writer => {
            let log0: Vec<DevOp> = ctx0.borrow().log.clone();
            let reference = WriterRef { image: image0, log: log0 };
            let points: Vec<Fault> = match point {
                Some(f) => vec![f.clone()],
                None => reference
                    .log
                    .iter()
                    .flat_map(|op| flavours(op).into_iter().map(move |k| Fault { at: op.no, kind: k }))
                    .collect(),
            };
            st.count("writer_ops_enumerated", reference.log.len() as u64);
            for f in points {
                st.evaluations += 1;
                let fc = f.clone();
                let res = guard(|| {
                    let (exec, image, ctx, disk) = writer_run(case, vec![fc.clone()], true);
                    let mut local = RunStats::default();
                    let v = if case.prog.on_error == OnError::Stop {
                        judge_writer(&exec, &image, &ctx, &disk, &reference, &mut local)
                    } else if exec.first_failure.is_some() {
                        judge_persistent(&exec, &image, &ctx, &mut local)
                    } else {
                        None
                    };
                    local.absorb_ctx(&ctx);
                    let fired = !ctx.borrow().fired.is_empty();
                    let call = exec.calls.iter().find(|cl| cl.op_from <= fc.at && fc.at < cl.op_to).map(|c| label_class(&c.label));
                    (v, local, fired, call, exec.completed)
                });
                let narrowed = Case { mode: Mode::Faults { target, point: Some(f.clone()) }, ..case.clone() };
                match res {
                    Err((loc, msg)) => {
                        if loc.contains("verif/sim/") {
                            panic!("harness panic at {loc}: {msg}");
                        }
                        let short = loc.rsplit("/repo/").next().unwrap_or(&loc).to_string();
                        return Outcome::fail_narrowed(format!("panic@{short}"), format!("panic with fault {f:?}: {msg} at {loc}"), narrowed);
                    }
                    Ok((v, local, fired, call, completed)) => {
                        merge(st, local);
                        if let Some((class, detail)) = v {
                            return Outcome::fail_narrowed(class, format!("fault {f:?}: {detail}"), narrowed);
                        }
                        // the same fault met by callers that do not stop at the failed call
                        if fired && case.persistent && case.prog.on_error == OnError::Stop {
                            for mode in [OnError::Continue, OnError::RetryFinalize] {
                                st.evaluations += 1;
                                let pc = Case { prog: Program { on_error: mode, ..case.prog.clone() }, persistent: false, ..case.clone() };
                                let fc = f.clone();
                                let res = guard(|| {
                                    let (exec, image, ctx, _disk) = writer_run(&pc, vec![fc.clone()], true);
                                    let mut local = RunStats::default();
                                    let v = if exec.first_failure.is_some() { judge_persistent(&exec, &image, &ctx, &mut local) } else { None };
                                    (v, local)
                                });
                                let narrowed = Case { mode: Mode::Faults { target, point: Some(f.clone()) }, ..pc.clone() };
                                match res {
                                    Err((loc, msg)) => {
                                        if loc.contains("verif/sim/") {
                                            panic!("harness panic at {loc}: {msg}");
                                        }
                                        let short = loc.rsplit("/repo/").next().unwrap_or(&loc).to_string();
                                        return Outcome::fail_narrowed(format!("panic@{short}"), format!("panic with fault {f:?} and a caller that goes on ({mode:?}): {msg} at {loc}"), narrowed);
                                    }
                                    Ok((v, local)) => {
                                        merge(st, local);
                                        if let Some((class, detail)) = v {
                                            return Outcome::fail_narrowed(class, format!("fault {f:?}, caller {mode:?}: {detail}"), narrowed);
                                        }
                                    }
                                }
                            }
                        }
                        if fired {
                            let mut fp = Digest::new();
                            fp.u64(fp_base).str(f.kind.name()).u64(f.at).str(&call.unwrap_or_else(|| "drop".into()));
                            st.fingerprint(fp.finish());
                        }
                        dg.u64(completed as u64);
                    }
                }
            }
            st.digest = dg.finish();
            if st.sample.is_none() {
                st.sample = Some(json!({"mode": "single fault, writer", "device_ops": reference.log.len(),
                    "calls": exec0.calls.iter().take(10).map(|c| format!("{} ops {}..{}", c.label, c.op_from, c.op_to)).collect::<Vec<_>>(),
                    "flavours": ["error", "short_then_error", "eintr", "write_zero", "enospc"]}));
            }
        }
        Target::Reader => {
            // discover the shape, then the fault-free reader log
            let probe_ctx = new_ctx(vec![]);
            let probe = reader_run(&image0, &probe_ctx, &case.rchunk, &exec0.blob_descs, &[], false);
            let hist = full_history(probe.n_pcs, probe.n_blobs, true);
            let rctx0 = new_ctx(vec![]);
            rctx0.borrow_mut().record_ops = true;
            let reference = reader_run(&image0, &rctx0, &case.rchunk, &exec0.blob_descs, &hist, true);
            st.absorb_ctx(&rctx0);
            if let Err(e) = &reference.open {
                return Outcome::fail("reopen-failed", format!("fault-free reopen failed: {e}"));
            }
            let log0: Vec<DevOp> = rctx0.borrow().log.clone();
            st.count("reader_ops_enumerated", log0.len() as u64);
            let points: Vec<Fault> = match point {
                Some(f) => vec![f.clone()],
                None => log0.iter().flat_map(|op| flavours(op).into_iter().map(move |k| Fault { at: op.no, kind: k })).collect(),
            };
            for f in points {
                st.evaluations += 1;
                let fc = f.clone();
                let res = guard(|| {
                    let ctx = new_ctx(vec![fc]);
                    ctx.borrow_mut().record_ops = true;
                    let run = reader_run(&image0, &ctx, &case.rchunk, &exec0.blob_descs, &hist, true);
                    let mut local = RunStats::default();
                    let v = judge_reader(&run, &reference, &ctx, &mut local);
                    local.absorb_ctx(&ctx);
                    let fired = !ctx.borrow().fired.is_empty();
                    (v, local, fired)
                });
                let narrowed = Case { mode: Mode::Faults { target, point: Some(f.clone()) }, ..case.clone() };
                match res {
                    Err((loc, msg)) => {
                        if loc.contains("verif/sim/") {
                            panic!("harness panic at {loc}: {msg}");
                        }
                        let short = loc.rsplit("/repo/").next().unwrap_or(&loc).to_string();
                        return Outcome::fail_narrowed(format!("panic@{short}"), format!("panic with fault {f:?}: {msg} at {loc}"), narrowed);
                    }
                    Ok((v, local, fired)) => {
                        merge(st, local);
                        if let Some((class, detail)) = v {
                            return Outcome::fail_narrowed(class, format!("fault {f:?}: {detail}"), narrowed);
                        }
                        if fired {
                            let mut fp = Digest::new();
                            fp.u64(fp_base).str(f.kind.name()).u64(f.at).u64(7);
                            st.fingerprint(fp.finish());
                        }
                    }
                }
            }
            st.digest = dg.finish();
            if st.sample.is_none() {
                st.sample = Some(json!({"mode": "single fault, reader", "device_ops": log0.len(),
                    "history": hist.iter().take(10).map(|o| format!("{o:?}")).collect::<Vec<_>>()}));
            }
        }
    }
    Outcome::Held
}

fn merge(st: &mut RunStats, local: RunStats) {
    for (k, v) in local.counters {
        *st.counters.entry(k).or_insert(0) += v;
    }
    st.sim_ops += local.sim_ops;
    st.sim_bytes += local.sim_bytes;
}

impl Prop for C16 {
    type Case = Case;
    fn id(&self) -> &'static str {
        "C16"
    }
    fn meta(&self) -> Meta {
        Meta {
            level: "fault_enumeration",
            rule: "per run index one small seeded writer program (0-3 items, knob on, <= 40 points per cloud, payloads <= 2.6 KiB; every sixteenth program, read by a reader session, also holds a payload of 64 KiB or more; every eighth writer session has a filler blob sized so that a packet written from inside add_point ends exactly at a page end). Iterators are polled three more times after their first error. Index % 4 == 3: chunking mode - the program and the read-everything history (validate_crc, raw_xml, open, xml, listings, raw + simple iteration of every cloud, every blob) under 4 transfer schedules (one byte at a time, boundary-biased, 2 random) for device, source pipes and sinks must give byte-identical images and identical results as full transfers. Otherwise: single-error mode, exhaustive per program - the fault-free device-operation sequence (device and pipes on one clock) of the writer program (even indices) or of the reader session (odd) is recorded, and for EVERY operation and every flavour applicable to its kind (hard error of kind Other; an error of another kind - TimedOut, WouldBlock, UnexpectedEof, InvalidData, BrokenPipe, NotFound by operation number, UnexpectedEof on every read; short transfer then error, two cut sizes on reads; EINTR, on seeks and flushes as well as on transfers; write returning 0; disk full from that write on) the session is re-run with exactly that fault. Writer runs meet every fault three times: with a caller that stops at the failed call and drops everything, with one that gives up the affected item and goes on with the next call up to the top-level finalize, and with one that calls a failed finalize (of a point cloud or the top-level one) a second time. Oracle: every device operation that reported an error lies inside an API call that returned Err (iterators: Some(Err)), except EINTR (may be absorbed: then the result must equal the fault-free one) and operations inside Drop; every operation of a reader session that met no failing device operation gives the fault-free result, also behind the failed one; no panic; whenever top-level finalize returned Ok the image equals the fault-free image and is flushed; for the callers that go on: whenever top-level finalize returned Ok the file opens and everything the successful calls handed in (points, payloads, metadata) reads back. Distinct = (program shape, fault kind, operation number, API call class); non-trivial = the fault fired".into(),
            assumptions: vec![
"in the reader sessions and the chunking mode nothing follows a failed call; what a writer offers after a failed call is judged only through the top-level finalize (it must not report success for an incomplete file)".into(),
                "EINTR is injected on every device operation kind (read, write, seek, stream_position, flush)".into(),
                "errors inside Drop are swallowed by design".into(),
            ],
            real: vec!["whole e57 crate (writer and reader paths)".into(), "roxmltree".into(), "std::io::copy / read_exact / write_all".into()],
            stub: vec!["SimDisk".into(), "SimPipe sources and sinks".into(), "fault plan".into()],
            required_probes: vec![
                "hard_error_surfaced".into(),
                "eintr_absorbed".into(),
                "error_during_drop".into(),
                "short_writes_happened".into(),
                "finalize_fails_after_earlier_failure".into(),
            ],
        }
    }
    fn plan(&self, tier: Tier) -> Plan {
        match tier {
            Tier::Quick => Plan { runs: 144, time_box_s: None, isolation: Isolation::Threads },
            Tier::Thorough => Plan { runs: 30_000, time_box_s: Some(480), isolation: Isolation::Threads },
        }
    }
    fn generate(&self, rc: &RunCtx) -> Case {
        let mut g = Rng::stream(rc.run_seed, "cfg");
        let cfg = ProgCfg {
            max_items: 3,
            knob: Some(*g.pick(&KNOBS)),
            placement_residue: if g.chance(1, 2) { Some((g.below(255) * 4) as u32) } else { None },
            nasty_strings: false,
            ext: true,
            allow_abandon: true,
            max_points_knob_off: 0,
            custom_xml: true,
            small: true,
            big_permille: 0,
        };
        let mut prog = gen_program(rc.run_seed, &cfg);
        if rc.index % 16 == 5 {
            // a reader session over a payload of 64 KiB or more
            let len = *g.pick(&[65_536usize, 65_537, 66_000, 70_001]);
            prog.calls.push(Call::Blob { data: crate::model::Bytes::draw(&mut g, len), pipe: Chunk::Full, fail_after: None });
        }
        if rc.index % 8 == 2 {
            // writer session in which a packet written by add_point ends exactly at a page end
            if !prog.calls.iter().any(|c| matches!(c, Call::Pc { end: SubEnd::Finalize, steps, .. } if steps.iter().any(|s| matches!(s, PcStep::Points { n, .. } if *n > 20)))) {
                use crate::model::*;
                let proto: Vec<Rec> = [0u8, 1, 2].iter().map(|i| Rec { name: Name::Std(*i), dt: DType::Double { min: None, max: None } }).collect();
                prog.calls.push(Call::Pc { guid: gen_guid(&mut g), proto, steps: vec![PcStep::Points { n: 30 + g.usize_below(10), seed: g.next_u64() }], end: SubEnd::Finalize });
            }
            tune_packet_end_to_page_end(&mut prog);
        }
        let mut c = Rng::stream(rc.run_seed, "chunk-dev");
        if rc.index % 4 == 3 {
            let schedules = vec![
                Chunk::One,
                Chunk::Boundary { seed: c.next_u64() },
                Chunk::Random { seed: c.next_u64(), short_permille: 300 },
                Chunk::Random { seed: c.next_u64(), short_permille: 50 },
            ];
            Case { prog, wchunk: Chunk::Full, rchunk: Chunk::Full, mode: Mode::Chunking { schedules }, persistent: false }
        } else {
            let target = if rc.index % 2 == 0 { Target::Writer } else { Target::Reader };
            // full transfers or a light random schedule: keeps the operation sequence short
            let ch = if g.chance(1, 2) { Chunk::Full } else { Chunk::Random { seed: c.next_u64(), short_permille: 50 } };
            Case { prog, wchunk: ch.clone(), rchunk: ch, mode: Mode::Faults { target, point: None }, persistent: target == Target::Writer }
        }
    }
    fn execute(&self, case: &Case, st: &mut RunStats) -> Outcome<Case> {
        match &case.mode {
            Mode::Chunking { schedules } => run_chunking(case, schedules, st),
            Mode::Faults { target, point } => run_faults(case, *target, point, st),
        }
    }
    fn shrink(&self, case: &Case) -> Vec<Case> {
        let mut out: Vec<Case> = Vec::new();
        match &case.mode {
            Mode::Chunking { schedules } => {
                for p in shrink_program(&case.prog) {
                    out.push(Case { prog: p, ..case.clone() });
                }
                for i in 0..schedules.len() {
                    if schedules.len() > 1 {
                        let mut s = schedules.clone();
                        s.remove(i);
                        out.push(Case { mode: Mode::Chunking { schedules: s }, ..case.clone() });
                    }
                }
            }
            Mode::Faults { target, point: Some(f) } => {
                // dropping program items shifts operation numbers: re-target the fault by scanning
                // a window of positions for each smaller program
                for p in shrink_program(&case.prog) {
                    for at in [f.at, f.at.saturating_sub(1), f.at + 1] {
                        out.push(Case { prog: p.clone(), mode: Mode::Faults { target: *target, point: Some(Fault { at, kind: f.kind.clone() }) }, ..case.clone() });
                    }
                    out.push(Case { prog: p, mode: Mode::Faults { target: *target, point: None }, ..case.clone() });
                }
                if case.wchunk != Chunk::Full {
                    out.push(Case { wchunk: Chunk::Full, rchunk: Chunk::Full, mode: Mode::Faults { target: *target, point: None }, ..case.clone() });
                }
            }
            Mode::Faults { .. } => {}
        }
        out
    }
}
