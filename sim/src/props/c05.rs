//! C05 – the simple reader equals the documented view of the raw data.

use super::c03::{note_layout, producer_cfg, producer_self_check, scene_for, shrink_layout};
use super::c17::make_source;
use super::writer_rt::*;
use crate::adapter::*;
use crate::gen::*;
use crate::history::*;
use crate::program::*;
use crate::refcodec::encode::{encode, Layout};
use crate::refcodec::{self, page};
use crate::rng::{Digest, Rng};
use crate::runner::*;
use crate::simdisk::*;
use crate::view::{check, view, ViewError, ViewOpts};
use e57::E57Reader;
use serde::{Deserialize, Serialize};
use serde_json::json;

#[derive(Clone, Debug, Serialize, Deserialize)]
pub enum Source {
    Writer,
    Producer { layout: Layout, foreign: u8 },
}

#[derive(Clone, Debug, Serialize, Deserialize)]
pub struct Case {
    pub prog: Program,
    pub source: Source,
    /// option vectors (6 bits each) to run
    pub opts: Vec<u8>,
    /// unsealed damage to pages of the file (sub-batch B)
    pub damage: Vec<Patch>,
    pub rchunk: Chunk,
}

pub struct C05;

pub fn build_image(prog: &Program, source: &Source, st: Option<&mut RunStats>) -> Result<(Vec<u8>, Vec<(u64, u64)>), (String, String)> {
    match source {
        Source::Writer => make_source(prog),
        Source::Producer { layout, foreign } => {
            let scene = scene_for(prog, *foreign, layout.seed);
            let enc = encode(&scene, layout);
            if let Err(e) = producer_self_check(&scene, &enc) {
                panic!("producer self check failed: {e}");
            }
            if let Some(st) = st {
                note_layout(st, &enc, layout);
            }
            Ok((enc.image, enc.blob_descs))
        }
    }
}

fn run_case(case: &Case, st: &mut RunStats) -> Outcome<Case> {
    let (mut image, _standalone) = match build_image(&case.prog, &case.source, Some(st)) {
        Ok(x) => x,
        Err((c, d)) => return Outcome::fail(c, d),
    };
    for p in &case.damage {
        p.apply(&mut image);
    }
    let damaged = !case.damage.is_empty() && !page::bad_pages(&image).is_empty();
    let ctx = new_ctx(vec![]);
    let disk = SimDisk::new(&ctx, DEV_DISK, image.clone(), &case.rchunk);
    let mut r = match E57Reader::new(disk) {
        Ok(r) => r,
        Err(e) => {
            if damaged {
                return Outcome::Held;
            }
            return Outcome::fail("open-failed", format!("file does not open: {e}"));
        }
    };
    let pcs = r.pointclouds();
    let mut dg = Digest::new();
    let mut simple_failures = 0u64;
    let mut judged_norm = 0u64;
    let mut bad_state_seen = false;
    let mut above_max_seen = false;
    for (k, pc) in pcs.iter().enumerate() {
        let desc = pc_desc_from_e57(pc);
        let raw = run_op(&mut r, &ctx, &pcs, &[], &ROp::Raw { pc: k, take: None }, DEV_PIPE);
        let (raw_points, raw_failed) = match &raw.result {
            OpResult::Raw { opened, points, end } => (points.clone(), opened.is_err() || matches!(end, Ending::Failed(_))),
            _ => (vec![], true),
        };
        if raw_failed && !damaged {
            // C01/C03 territory: nothing to compare the simple iterator with
            st.count("raw_failed_on_intact_file", 1);
        }
        above_max_seen |= raw_points.iter().any(|p| p.iter().zip(desc.proto.iter()).any(|(v, r)| !v.fits(&r.dt)));
        for &ob in &case.opts {
            st.evaluations += 1;
            let o = ViewOpts::from_bits(ob);
            let simple = run_op(&mut r, &ctx, &pcs, &[], &ROp::Simple { pc: k, opts: ob, take: None }, DEV_PIPE);
            let (opened, points, end) = match &simple.result {
                OpResult::Simple { opened, points, end } => (opened, points, end),
                _ => continue,
            };
            let what = format!("point cloud {k}, options {ob:06b} (s2c={} c2s={} i2c={} ni={} nc={} pose={})", o.s2c, o.c2s, o.i2c, o.norm_intensity, o.norm_color, o.pose);
            // expectation per point; a stored invalid state outside its set permits failure
            let mut bad_state_at: Option<usize> = None;
            let mut wants = Vec::with_capacity(raw_points.len());
            for (i, p) in raw_points.iter().enumerate() {
                match view(&desc, p, &o) {
                    Ok(w) => {
                        if w.intensity_tol > 0.0 || w.color_tol > 0.0 {
                            judged_norm += 1;
                        }
                        wants.push(Some(w))
                    }
                    Err(ViewError::BadInvalidState) => {
                        if bad_state_at.is_none() {
                            bad_state_at = Some(i);
                        }
                        wants.push(None);
                    }
                }
            }
            bad_state_seen |= bad_state_at.is_some();
            if let Err(e) = opened {
                if raw_failed || damaged {
                    continue;
                }
                return Outcome::fail("simple-open-failed", format!("{what}: pointcloud_simple failed ({e}) although the raw iterator reads all {} points", raw_points.len()));
            }
            for (i, g) in points.iter().enumerate() {
                match wants.get(i) {
                    Some(Some(w)) => {
                        if let Some(d) = check(g, w) {
                            let class = if ob == DEFAULT_OPTS { "view-default-options" } else { "view-with-options" };
                            return Outcome::fail(class, format!("{what}: point {i} (raw {:?}): {d}", raw_points[i]));
                        }
                    }
                    Some(None) => {}
                    None => {
                        if !raw_failed {
                            return Outcome::fail("simple-yields-more", format!("{what}: simple iterator yields point {i}, raw iterator only {}", raw_points.len()));
                        }
                    }
                }
                dg.u64(g.cart_state as u64).u64(g.cart[0].to_bits()).u64(g.row as u64);
            }
            match end {
                Ending::Done => {
                    if !raw_failed && points.len() != raw_points.len() {
                        return Outcome::fail("simple-count", format!("{what}: simple iterator ends after {} points, raw iterator yields {}", points.len(), raw_points.len()));
                    }
                }
                Ending::Failed(e) => {
                    simple_failures += 1;
                    // excused where a point not yet handed out stores a state outside its set (the
                    // iterator converts a packet's points in one go, so it may stop ahead of it)
                    let excused = raw_failed || wants.iter().skip(points.len()).any(|w| w.is_none());
                    if !excused && std::env::var("E57SIM_TRACE").is_ok() {
                        eprintln!("not excused: wants={:?} proto={:?} raw={:?}", wants.iter().map(|w| w.is_some()).collect::<Vec<_>>(), desc.proto, raw_points);
                    }
                    if !excused {
                        let class = if e.contains("logic error") { "simple-fails-logic-error" } else { "simple-fails-alone" };
                        return Outcome::fail(class, format!("{what}: simple iterator failed after {} points ({e}) where the raw iterator reads all {} points", points.len(), raw_points.len()));
                    }
                }
                Ending::Taken => {}
            }
            if !points.is_empty() {
                let mut fp = Digest::new();
                fp.u64(ob as u64);
                for rec in &desc.proto {
                    fp.u64(rec.dt.kind() as u64);
                    if let crate::model::Name::Std(i) = rec.name {
                        fp.u64(i as u64);
                    }
                }
                fp.u64(desc.meta.transform.is_some() as u64).u64(points.len().min(64) as u64).u64(damaged as u64);
                fp.u64(matches!(case.source, Source::Writer) as u64);
                st.fingerprint(fp.finish());
            }
        }
    }
    st.probe("simple_failed_with_raw_on_damaged_page", damaged && simple_failures > 0);
    st.count("normalised_values_judged", judged_norm);
    st.probe("stored_invalid_state_outside_its_set", bad_state_seen);
    st.probe("stored_bit_pattern_above_declared_maximum", above_max_seen);
    st.probe("pose_present", pcs.iter().any(|p| p.transform.is_some()));
    st.probe("producer_source", matches!(case.source, Source::Producer { .. }));
    st.absorb_ctx(&ctx);
    st.digest = dg.finish();
    if st.sample.is_none() && !pcs.is_empty() {
        st.sample = Some(json!({"source": match &case.source { Source::Writer => "crate writer".to_string(), Source::Producer { layout, .. } => format!("producer {layout:?}") },
            "option_vectors": case.opts, "point_clouds": pcs.iter().map(|p| format!("{} records, prototype {:?}", p.records, p.prototype.iter().map(|r| r.name.clone()).collect::<Vec<_>>())).collect::<Vec<_>>(),
            "damage": format!("{:?}", case.damage)}));
    }
    Outcome::Held
}

impl Prop for C05 {
    type Case = Case;
    fn id(&self) -> &'static str {
        "C05"
    }
    fn meta(&self) -> Meta {
        Meta {
            level: "exploration",
            rule: "files from the C01 generator (crate writer, knob on) and from the C03 producer (all layouts incl. packets that complete no point); per point cloud a drawn subset of the 64 option vectors (always the default vector, 3 more in quick; all 64 in thorough for clouds <= 500 points); raw and simple iteration on one E57Reader<SimDisk> with seeded short reads; every third run with an unsealed bit flip in a section page. Oracle: same count and order as the raw iterator; each point = reference view (written from the doc comments and the property text) of the raw point and the metadata the reader reports: validity states from the invalid-state attributes, scaled integers value*scale+offset, colour/intensity absent iff flagged or not stored, row/column default -1, spherical->Cartesian only when no valid Cartesian, Cartesian->spherical only for non-valid spherical, intensity->grey only without colour, pose (rotation then translation) on valid Cartesian only; computed coordinates compared with 1e-11 relative tolerance on the input magnitude (NaN = NaN, extremes only by state); normalised values (switch on) = (value - min) / (max - min) clamped to [0,1] with the cloud's limits when both are given as a pair of one numeric kind, else the record's type range, within 2e-6; not judged for non-finite values and for degenerate, reversed, non-finite or mixed-kind ranges (C13's corner cases). One point in 64 has special values all at once (every float NaN / inf / -0 / max, every integer at a limit); poses include rotations of 1e-9..1e-3 rad. Sloppy foreign scenes also have constant (zero-width) state records. Producer files with flag 32 carry what the crate's writer cannot store: wider invalid-state types, stored states outside the set, bit patterns above a record's declared maximum with limits covering them. The simple iterator may fail only if the raw iterator fails on the same bytes or a stored invalid-state lies outside its set. Distinct = hash(option vector, prototype names and type kinds, pose present, count class, damaged, source); non-trivial = at least one point yielded".into(),
            assumptions: vec![
                "invalid-state, row and column attributes have integer type (what the writer's rules demand)".into(),
                "colour/intensity limits, where given, are ordered".into(),
                "where the documentation leaves room (direction-only conversions) either outcome is accepted".into(),
            ],
            real: vec!["e57 crate: PointCloudReaderSimple, QueueReader, raw iterator, E57Reader".into()],
            stub: vec!["SimDisk".into(), "reference view".into(), "refcodec encoder as producer".into(), "crate writer as producer".into()],
            required_probes: vec!["producer_packet_completes_no_point".into(), "simple_failed_with_raw_on_damaged_page".into(), "pose_present".into(), "producer_source".into(), "stored_invalid_state_outside_its_set".into(), "stored_bit_pattern_above_declared_maximum".into()],
        }
    }
    fn preflight(&self) -> Result<(), String> {
        refcodec::calibrate(false).map(|_| ())
    }
    fn plan(&self, tier: Tier) -> Plan {
        match tier {
            Tier::Quick => Plan { runs: 8000, time_box_s: None, isolation: Isolation::Threads },
            Tier::Thorough => Plan { runs: 1_200_000, time_box_s: Some(480), isolation: Isolation::Threads },
        }
    }
    fn generate(&self, rc: &RunCtx) -> Case {
        let mut g = Rng::stream(rc.run_seed, "cfg");
        let mut cfg = producer_cfg(&mut g);
        cfg.nasty_strings = false;
        cfg.knob = Some(*g.pick(&KNOBS));
        cfg.max_items = 3;
        let prog = gen_program(rc.run_seed, &cfg);
        let source = if rc.index % 2 == 0 {
            Source::Writer
        } else {
            let mut l = Rng::stream(rc.run_seed, "layout");
            Source::Producer { layout: Layout::draw(&mut l), foreign: g.below(64) as u8 }
        };
        let mut opts = vec![DEFAULT_OPTS];
        if rc.tier == Tier::Thorough {
            opts = (0..64u8).collect();
        } else {
            for _ in 0..3 {
                let o = g.below(64) as u8;
                if !opts.contains(&o) {
                    opts.push(o);
                }
            }
        }
        let mut damage = Vec::new();
        if rc.index % 3 == 2 {
            let mut f = Rng::stream(rc.run_seed, "fault");
            if let Ok((image, standalone)) = build_image(&prog, &source, None) {
                damage = super::c17::draw_damage(&mut f, &image, &standalone, false);
            }
        }
        let mut c = Rng::stream(rc.run_seed, "chunk-dev");
        Case { prog, source, opts, damage, rchunk: Chunk::draw(&mut c) }
    }
    fn execute(&self, case: &Case, st: &mut RunStats) -> Outcome<Case> {
        run_case(case, st)
    }
    fn shrink(&self, case: &Case) -> Vec<Case> {
        let mut out = Vec::new();
        for i in 0..case.opts.len() {
            if case.opts.len() > 1 {
                let mut c = case.clone();
                c.opts.remove(i);
                out.push(c);
            }
        }
        if case.damage.is_empty() {
            for p in shrink_program(&case.prog) {
                out.push(Case { prog: p, ..case.clone() });
            }
            if let Source::Producer { layout, foreign } = &case.source {
                for l in shrink_layout(layout) {
                    out.push(Case { source: Source::Producer { layout: l, foreign: *foreign }, ..case.clone() });
                }
                if *foreign != 0 {
                    out.push(Case { source: Source::Producer { layout: layout.clone(), foreign: 0 }, ..case.clone() });
                }
            }
        }
        if case.rchunk != Chunk::Full {
            out.push(Case { rchunk: Chunk::Full, ..case.clone() });
        }
        out
    }
}
