//! C07 – corrupted pages never yield data; the checksum is CRC-32C in both back ends.

use super::c05::{build_image, Source};
use super::c03::producer_cfg;
use super::writer_rt::KNOBS;
use crate::gen::*;
use crate::history::*;
use crate::program::*;
use crate::refcodec::encode::Layout;
use crate::refcodec::{self, page};
use crate::rng::{Digest, Rng};
use crate::runner::*;
use crate::simdisk::*;
use e57::E57Reader;
use serde::{Deserialize, Serialize};
use serde_json::json;
use std::collections::BTreeMap;

#[derive(Clone, Debug, Serialize, Deserialize)]
pub enum Alter {
    /// every single-bit flip of every page (exhaustive), each judged with the read-everything history
    AllBitFlips,
    /// these patches, applied before open (None) or after history operation `after_op`
    Patches { patches: Vec<Patch>, after_op: Option<usize> },
    /// a hand-made paged byte string with a page size other than 1024 (accepted by the static
    /// validate_crc / raw_xml, which read the page size from the header): checksums by the
    /// independent CRC-32C; optionally one flipped bit
    OddPageSize { size: u64, pages: u64, seed: u64, flip: Option<u64> },
    /// these patches, applied to the stored bytes at device operation number `at` of the reader
    /// session (counted from the open): in the middle of whatever library call is in progress
    AtDeviceOp { patches: Vec<Patch>, at: u64 },
}

#[derive(Clone, Debug, Serialize, Deserialize)]
pub struct Case {
    pub prog: Program,
    pub source: Source,
    pub alter: Alter,
    pub hist: Vec<ROp>,
    pub rchunk: Chunk,
}

pub struct C07;

struct Pristine {
    image: Vec<u8>,
    standalone: Vec<(u64, u64)>,
    run: ReaderRun,
}

fn pristine_of(case: &Case, hist: &[ROp]) -> Result<Pristine, (String, String)> {
    let (image, standalone) = build_image(&case.prog, &case.source, None)?;
    let ctx = new_ctx(vec![]);
    let run = reader_run(&image, &ctx, &Chunk::Full, &standalone, hist, true);
    Ok(Pristine { image, standalone, run })
}

/// Judge one altered image with a history. Patches may be applied midway.
fn judge(pr: &Pristine, hist: &[ROp], patches: &[Patch], after_op: Option<usize>, at_dev: Option<u64>, rchunk: &Chunk, st: &mut RunStats) -> Option<(String, String)> {
    let mut altered = pr.image.clone();
    for p in patches {
        p.apply(&mut altered);
    }
    let bad = page::bad_pages(&altered);
    let whole_pages = altered.len() % 1024 == 0 && !altered.is_empty();
    let detectable = !bad.is_empty() || !whole_pages;
    if altered == pr.image {
        return None;
    }
    if !detectable {
        // a 2^-32 collision of a random overwrite, or an alteration that carries its own valid
        // checksum: a legitimately different file, not an alarm
        st.count("alteration_not_detectable_by_crc", 1);
        return None;
    }
    if patches.iter().any(|p| matches!(p, Patch::Set { offset, bytes } if offset % 1024 == 1020 && bytes.len() == 4)) {
        st.probe("near_miss_checksum_stored", true);
    }
    let ctx = new_ctx(vec![]);
    // static validation of the altered bytes
    {
        let d = SimDisk::new(&ctx, DEV_DISK3, altered.clone(), rchunk);
        if E57Reader::validate_crc(d).is_ok() {
            return Some(("validate-crc-accepts-altered".into(), format!("validate_crc returned Ok although page(s) {:?} are altered", &bad[..bad.len().min(4)])));
        }
        let d = SimDisk::new(&ctx, DEV_DISK3, altered.clone(), rchunk);
        if let Ok(x) = E57Reader::raw_xml(d) {
            if let Some((_, _, Ok(px))) = &pr.run.raw_xml {
                if &x != px {
                    // raw_xml does only "minimal parsing" of the (unprotected) 48 header bytes by
                    // its own documentation: judged only when the altered page is not page 0
                    if !bad.contains(&0) {
                        return Some(("raw-xml-differs".into(), "raw_xml returned other bytes than on the unaltered file".into()));
                    }
                }
            }
        }
    }
    let start_image = if after_op.is_some() || at_dev.is_some() { pr.image.clone() } else { altered.clone() };
    if let Some(at) = at_dev {
        // the stored bytes change at a device-operation instant of this session
        let base = ctx.borrow().op_no;
        ctx.borrow_mut().faults.push(Fault { at: base + at, kind: FaultKind::Mutate(patches.to_vec()) });
    }
    let disk = SimDisk::new(&ctx, DEV_DISK2, start_image, rchunk);
    let mut r = match E57Reader::new(disk.clone()) {
        Ok(r) => r,
        Err(_) => {
            st.probe("open_rejected_altered_file", true);
            return None;
        }
    };
    // everything the reader holds in memory must be pristine
    if after_op.is_none() && at_dev.is_none() {
        if let Some(OpRec { result: OpResult::Xml(px), .. }) = pr.run.recs.iter().find(|r| matches!(r.result, OpResult::Xml(_))) {
            if r.xml() != px {
                return Some(("xml-differs".into(), format!("E57Reader::new accepted the altered file and xml() returns {} bytes instead of {}", r.xml().len(), px.len())));
            }
        }
    }
    let pcs = r.pointclouds();
    let blobs = all_blobs(&r, &pr.standalone);
    let mut failed_before = false;
    for (i, op) in hist.iter().enumerate() {
        let rec = run_op(&mut r, &ctx, &pcs, &blobs, op, DEV_PIPE + 150 + (i % 50) as u8);
        let want = match pr.run.recs.get(i) {
            Some(w) => &w.result,
            None => break,
        };
        if !rec.result.err_or_same(want) {
            let class = if failed_before { "altered-data-after-earlier-failure" } else { "altered-data-returned" };
            return Some((
                class.into(),
                format!("history op #{i} {op:?}: {} on the altered file, {} on the unaltered file (altered pages {:?})", rec.result.brief(), want.brief(), &bad[..bad.len().min(4)]),
            ));
        }
        if rec.result.is_err() {
            failed_before = true;
            st.probe("read_failed_on_altered_page", true);
        } else if failed_before && rec.op_to > rec.op_from {
            st.probe("read_ok_after_earlier_failure", true);
        }
        if after_op == Some(i) {
            for p in patches {
                disk.patch(p);
            }
            st.probe("page_altered_between_operations", true);
        }
    }
    if at_dev.is_some() {
        st.probe("page_altered_inside_an_operation", ctx.borrow().fired.iter().any(|f| f.name == "mutate"));
    }
    None
}

pub fn draw_alteration(f: &mut Rng, image_len: usize) -> Vec<Patch> {
    let pages = (image_len / 1024).max(1) as u64;
    let page = f.below(pages);
    let base = page * 1024;
    match f.below(9) {
        8 => {
            // a whole page (the last one half of the time, or the last k) overwritten with zeros
            // or 0xFF bytes, checksum included: what a hole or an erased block looks like
            let fill = if f.chance(2, 3) { 0u8 } else { 0xFF };
            let k = if f.chance(1, 3) { 1 + f.below(pages.min(3)) } else { 1 };
            let first = if f.chance(1, 2) { pages - k } else { f.below(pages - k + 1) };
            (0..k).map(|i| Patch::Set { offset: (first + i) * 1024, bytes: vec![fill; 1024] }).collect()
        }
        0 => vec![Patch::Xor { offset: base + f.below(1024), mask: 1 << f.below(8) }],
        1 => {
            // two or three bits within one page
            let n = 2 + f.usize_below(2);
            (0..n).map(|_| Patch::Xor { offset: base + f.below(1024), mask: 1 << f.below(8) }).collect()
        }
        2 => {
            // burst of at most 32 bits: first and last bit flipped, random in between
            let len = 2 + f.below(31); // bits
            let start = f.below(1024 * 8 - len);
            let mut out = Vec::new();
            for b in 0..len {
                if b == 0 || b == len - 1 || f.chance(1, 2) {
                    let bit = start + b;
                    out.push(Patch::Xor { offset: base + bit / 8, mask: 1 << (bit % 8) });
                }
            }
            out
        }
        3 => {
            // k-byte overwrite
            let k = 1 + f.usize_below(64);
            let off = f.below(1024 - k as u64);
            let mut bytes = vec![0u8; k];
            f.fill(&mut bytes);
            vec![Patch::Set { offset: base + off, bytes }]
        }
        4 => vec![Patch::Xor { offset: base + 1020 + f.below(4), mask: 1 << f.below(8) }], // checksum only
        5 => vec![Patch::Set { offset: base + f.below(1020), bytes: vec![0u8; 1 + f.usize_below(4)] }],
        6 => {
            // header fields of page 0 (file length, XML offset, XML length, page size), low bits favoured
            let field = *f.pick(&[0u64, 8, 16, 24, 32, 40, 16, 24, 32, 40]);
            let byte = if f.chance(2, 3) { 0 } else { f.below(8) };
            let bit = if f.chance(1, 2) { f.below(3) } else { f.below(8) };
            vec![Patch::Xor { offset: field + byte, mask: 1 << bit }]
        }
        _ => {
            // two pages
            let p2 = f.below(pages) * 1024;
            vec![
                Patch::Xor { offset: base + f.below(1024), mask: 1 << f.below(8) },
                Patch::Xor { offset: p2 + f.below(1024), mask: 1 << f.below(8) },
            ]
        }
    }
}

fn crc32_ieee(data: &[u8]) -> u32 {
    let mut crc = 0xFFFF_FFFFu32;
    for b in data {
        crc ^= *b as u32;
        for _ in 0..8 {
            crc = if crc & 1 != 0 { (crc >> 1) ^ 0xEDB8_8320 } else { crc >> 1 };
        }
    }
    !crc
}

/// Alterations that carry a checksum which is right in every respect but one: the byte order, the
/// polynomial or the final inversion. "CRC-32C stored big-endian" makes each of them a bad page.
pub fn draw_near_miss_checksum(f: &mut Rng, image: &[u8]) -> Vec<Patch> {
    let pages = (image.len() / 1024).max(1) as u64;
    let base = (f.below(pages) * 1024) as usize;
    if image.len() < base + 1024 {
        return vec![Patch::Xor { offset: base as u64, mask: 1 }];
    }
    let mut payload = image[base..base + 1020].to_vec();
    let mut out = Vec::new();
    let kind = f.below(5);
    if kind != 0 {
        let (o, m) = (f.usize_below(1020), 1u8 << f.below(8));
        payload[o] ^= m;
        out.push(Patch::Xor { offset: (base + o) as u64, mask: m });
    }
    let c = page::crc32c(&payload);
    let stored: [u8; 4] = match kind {
        0 | 1 => c.to_le_bytes(),
        2 => crc32_ieee(&payload).to_be_bytes(),
        3 => (!c).to_be_bytes(),
        _ => crc32_ieee(&payload).to_le_bytes(),
    };
    out.push(Patch::Set { offset: (base + 1020) as u64, bytes: stored.to_vec() });
    out
}

fn run_odd_page_size(case: &Case, size: u64, pages: u64, seed: u64, flip: Option<u64>, st: &mut RunStats) -> Outcome<Case> {
    st.evaluations += 1;
    let size = size.max(64) as usize;
    let pages = pages.clamp(1, 64) as usize;
    let mut r = Rng::new(seed);
    let mut image = vec![0u8; size * pages];
    r.fill(&mut image);
    let payload = size - 4;
    let xml_len = (r.below(200) + 1).min((payload * pages - 48) as u64);
    image[0..8].copy_from_slice(b"ASTM-E57");
    image[8..12].copy_from_slice(&1u32.to_le_bytes());
    image[12..16].copy_from_slice(&0u32.to_le_bytes());
    image[16..24].copy_from_slice(&((size * pages) as u64).to_le_bytes());
    image[24..32].copy_from_slice(&48u64.to_le_bytes());
    image[32..40].copy_from_slice(&xml_len.to_le_bytes());
    image[40..48].copy_from_slice(&(size as u64).to_le_bytes());
    for p in 0..pages {
        let crc = page::crc32c(&image[p * size..p * size + payload]).to_be_bytes();
        image[p * size + payload..(p + 1) * size].copy_from_slice(&crc);
    }
    // expected XML bytes: logical stream from logical offset 48 (physical 48, page 0)
    let mut logical = Vec::new();
    for p in 0..pages {
        logical.extend_from_slice(&image[p * size..p * size + payload]);
    }
    let want_xml = logical[48..48 + xml_len as usize].to_vec();
    if let Some(bit) = flip {
        let bit = bit % (image.len() as u64 * 8);
        // not in the page-size field itself: that would change how the file is paged
        let byte = (bit / 8) as usize;
        if !(40..48).contains(&byte) {
            image[byte] ^= 1 << (bit % 8);
        }
    }
    let altered = flip.map(|b| !(40..48).contains(&(((b % (image.len() as u64 * 8)) / 8) as usize))).unwrap_or(false);
    let ctx = new_ctx(vec![]);
    let d = SimDisk::new(&ctx, DEV_DISK3, image.clone(), &case.rchunk);
    let v = E57Reader::validate_crc(d);
    let mut dg = Digest::new();
    dg.bytes(&image).u64(v.is_ok() as u64);
    match (&v, altered) {
        (Ok(ps), false) => {
            if *ps != size as u64 {
                return Outcome::fail("validate-crc-page-size", format!("validate_crc returned page size {ps} for a file paged with {size}"));
            }
        }
        (Err(e), false) => return Outcome::fail("validate-crc-rejects-pristine", format!("validate_crc rejects a correctly checksummed file with page size {size} ({pages} pages): {e}")),
        (Ok(_), true) => return Outcome::fail("validate-crc-accepts-altered", format!("validate_crc accepts a file with page size {size} and one flipped bit")),
        (Err(_), true) => {}
    }
    let d = SimDisk::new(&ctx, DEV_DISK3, image.clone(), &case.rchunk);
    let x = E57Reader::raw_xml(d);
    dg.u64(x.is_ok() as u64);
    // raw_xml takes XML offset and length from the 48 header bytes without validating them (its
    // documentation says so): a flip inside page 0 is not judged by content, as in `judge`
    let flip_in_page0 = flip.map(|b| ((b % (image.len() as u64 * 8)) / 8) < size as u64).unwrap_or(false);
    match (&x, altered) {
        (Ok(_), true) if flip_in_page0 => {}
        (Ok(b), _) => {
            if b != &want_xml {
                return Outcome::fail("raw-xml-differs", format!("raw_xml on a file with page size {size} returned other bytes than were stored"));
            }
        }
        (Err(e), false) => return Outcome::fail("raw-xml-rejects-pristine", format!("raw_xml rejects a correctly checksummed file with page size {size}: {e}")),
        (Err(_), true) => {}
    }
    st.probe("page_size_other_than_1024", true);
    st.set_add("page_size_mod_8", (size % 8) as u64);
    st.absorb_ctx(&ctx);
    st.digest = dg.finish();
    let mut fp = Digest::new();
    fp.u64(91).u64(size as u64).u64(pages as u64).u64(altered as u64);
    st.fingerprint(fp.finish());
    Outcome::Held
}

fn run_case(case: &Case, st: &mut RunStats) -> Outcome<Case> {
    set_poll_after_error(true);
    if let Alter::OddPageSize { size, pages, seed, flip } = &case.alter {
        return run_odd_page_size(case, *size, *pages, *seed, *flip, st);
    }
    // discover shape, then the pristine results for the history to use
    let probe = match pristine_of(case, &[]) {
        Ok(p) => p,
        Err((c, d)) => return Outcome::fail(c, d),
    };
    if let Err(e) = &probe.run.open {
        return Outcome::fail("open-failed", format!("unaltered file does not open: {e}"));
    }
    // the library's pages carry the independent CRC-32C, big-endian
    if matches!(case.source, Source::Writer) && !page::bad_pages(&probe.image).is_empty() {
        return Outcome::fail("crc-not-crc32c", "pages written by the library do not carry the big-endian CRC-32C (Castagnoli) of their payload".to_string());
    }
    match &probe.run.validate {
        Some((_, _, Ok(1024))) => {}
        other => return Outcome::fail("validate-crc-rejects-pristine", format!("validate_crc on the unaltered file: {:?}", other.as_ref().map(|v| &v.2))),
    }
    let mut dg = Digest::new();
    dg.bytes(&probe.image);
    match &case.alter {
        Alter::AllBitFlips => {
            let hist = full_history(probe.run.n_pcs, probe.run.n_blobs, true);
            let pr = match pristine_of(case, &hist) {
                Ok(p) => p,
                Err((c, d)) => return Outcome::fail(c, d),
            };
            let bits = pr.image.len() as u64 * 8;
            for bit in 0..bits {
                st.evaluations += 1;
                let patch = Patch::Xor { offset: bit / 8, mask: 1 << (bit % 8) };
                if let Some((class, detail)) = judge(&pr, &hist, std::slice::from_ref(&patch), None, None, &case.rchunk, st) {
                    let narrowed = Case { alter: Alter::Patches { patches: vec![patch.clone()], after_op: None }, hist: hist.clone(), ..case.clone() };
                    return Outcome::fail_narrowed(class, format!("single-bit flip {patch:?}: {detail}"), narrowed);
                }
                // distinct: (byte offset within page class, page, field)
                let mut fp = Digest::new();
                fp.u64(bit).u64(pr.image.len() as u64);
                st.fingerprint(fp.finish());
            }
            st.count("single_bit_flips_enumerated", bits);
            st.probe("exhaustive_bit_flips_of_a_file", true);
            dg.u64(bits);
            if st.sample.is_none() {
                st.sample = Some(json!({"mode": "every single-bit flip", "file_bytes": pr.image.len(), "bits": bits, "history": hist.iter().map(|o| format!("{o:?}")).collect::<Vec<_>>()}));
            }
        }
        Alter::AtDeviceOp { patches, at } => {
            st.evaluations += 1;
            let pr = match pristine_of(case, &case.hist) {
                Ok(p) => p,
                Err((c, d)) => return Outcome::fail(c, d),
            };
            if let Some((class, detail)) = judge(&pr, &case.hist, patches, None, Some(*at), &case.rchunk, st) {
                return Outcome::fail(format!("{class}-mid-operation"), detail);
            }
            let mut fp = Digest::new();
            fp.u64(77).u64(*at).u64(case.hist.len() as u64).u64(patches.len() as u64);
            st.fingerprint(fp.finish());
            if st.sample.is_none() {
                st.sample = Some(json!({"mode": "alteration at a device-operation instant", "patches": format!("{patches:?}"), "at_device_op": at,
                    "history": case.hist.iter().map(|o| format!("{o:?}")).collect::<Vec<_>>(), "file_bytes": pr.image.len()}));
            }
        }
        Alter::OddPageSize { .. } => {}
        Alter::Patches { patches, after_op } => {
            st.evaluations += 1;
            let pr = match pristine_of(case, &case.hist) {
                Ok(p) => p,
                Err((c, d)) => return Outcome::fail(c, d),
            };
            if let Some((class, detail)) = judge(&pr, &case.hist, patches, *after_op, None, &case.rchunk, st) {
                return Outcome::fail(class, detail);
            }
            for r in &pr.run.recs {
                r.result.digest(&mut dg);
            }
            let mut fp = Digest::new();
            for p in patches {
                match p {
                    Patch::Xor { offset, mask } => fp.u64(1).u64(offset % 1024).u64(*mask as u64),
                    Patch::Set { offset, bytes } => fp.u64(2).u64(offset % 1024).u64(bytes.len() as u64),
                    _ => fp.u64(3),
                };
            }
            fp.u64(after_op.map(|a| a as u64 + 1).unwrap_or(0)).u64(case.hist.len() as u64);
            st.fingerprint(fp.finish());
            if st.sample.is_none() {
                st.sample = Some(json!({"mode": "sampled alteration", "patches": format!("{patches:?}"), "after_op": after_op,
                    "history": case.hist.iter().map(|o| format!("{o:?}")).collect::<Vec<_>>(), "file_bytes": pr.image.len()}));
            }
        }
    }
    st.digest = dg.finish();
    Outcome::Held
}

impl Prop for C07 {
    type Case = Case;
    fn id(&self) -> &'static str {
        "C07"
    }
    fn meta(&self) -> Meta {
        Meta {
            level: "fault_enumeration",
            rule: "pristine file (crate writer or refcodec producer, 2-40 pages, several sections) -> alteration -> reader history. Run indices 0..4 (0..24 in thorough) enumerate EVERY single-bit flip of every page of a small file, each judged with validate_crc, raw_xml, open, xml, listings, raw + simple iteration of every cloud and every blob. Other indices sample alterations (1-3 bit flips in a page, bursts <= 32 bits, 1-64 byte overwrites, checksum-only damage, zeroed bytes, header bytes of page 0, two pages, whole pages overwritten with zeros or 0xFF; every eighth run a near-miss checksum: the right CRC-32C in little-endian order, its complement, or the IEEE CRC-32 of the - possibly altered - payload) applied before open, BETWEEN two operations of a 1-8 operation history (a page goes bad while it may be the cached page), or at a drawn device-operation instant INSIDE whatever call is in progress (SimDisk's Mutate fault). Every 64th run is a file beyond 1 MiB (one payload of 1.1..1.6 MiB) with one altered page more than 1030 pages into it, read in one sequential run and by validate_crc. Iterators are polled three more times after their first error; whatever they hand out then must be what the unaltered file gives at that position. Every sixteenth run instead builds a paged byte string with a page size other than 1024 (64..70001, all residues modulo 8; checksums by the independent CRC) for the static validate_crc / raw_xml, with or without one flipped bit. Oracle: validate_crc is Ok on the pristine file and Err on every altered one (altered = independent bitwise CRC-32C of a page payload differs from its stored big-endian checksum; an alteration that is not detectable this way, a 2^-32 event, is counted and skipped); every operation is Err or equals the pristine result, also after earlier failures on the same reader; pages written by the library carry the independent CRC-32C; the whole batch is executed by a second harness build with the crc32c cargo feature and the per-run digests (file bytes, results) must be identical. Distinct = alteration shape x history; every enumerated alteration is non-trivial".into(),
            assumptions: vec![
                "E57Reader::header() and the static raw_xml on a damaged page 0 are outside the property's list of read operations".into(),
                "misplaced pages that carry their own valid checksum are not 'altered pages' in the sense of this property".into(),
            ],
            real: vec!["e57 crate reader paths with the built-in CRC".into(), "second build: e57 with feature crc32c (crate crc32c)".into()],
            stub: vec!["SimDisk with media faults".into(), "independent bitwise CRC-32C".into(), "pristine-result oracle".into()],
            required_probes: vec![
                "exhaustive_bit_flips_of_a_file".into(),
                "read_failed_on_altered_page".into(),
                "read_ok_after_earlier_failure".into(),
                "page_altered_between_operations".into(),
                "page_altered_inside_an_operation".into(),
                "page_size_other_than_1024".into(),
                "open_rejected_altered_file".into(),
                "second_crc_backend_compared".into(),
                "near_miss_checksum_stored".into(),
            ],
        }
    }
    fn preflight(&self) -> Result<(), String> {
        refcodec::calibrate(false).map(|_| ())
    }
    fn plan(&self, tier: Tier) -> Plan {
        match tier {
            Tier::Quick => Plan { runs: 8000, time_box_s: None, isolation: Isolation::Threads },
            Tier::Thorough => Plan { runs: 1_600_000, time_box_s: Some(420), isolation: Isolation::Threads },
        }
    }
    fn generate(&self, rc: &RunCtx) -> Case {
        let mut g = Rng::stream(rc.run_seed, "cfg");
        let enumerate = rc.index < 4 || (rc.tier == Tier::Thorough && rc.index < 24);
        let mut cfg = producer_cfg(&mut g);
        cfg.nasty_strings = false;
        cfg.knob = Some(*g.pick(&KNOBS));
        cfg.small = enumerate || cfg.small;
        cfg.max_items = if enumerate { 2 } else { 4 };
        let mut prog = gen_program(rc.run_seed, &cfg);
        if enumerate {
            // a small file that nevertheless has a point cloud with points and a payload
            let mut k = 0u64;
            while !(prog.calls.iter().any(|c| matches!(c, Call::Pc { steps, end: SubEnd::Finalize, .. } if steps.iter().any(|s| matches!(s, PcStep::Points { n, .. } if *n > 0))))
                && prog.calls.iter().any(|c| matches!(c, Call::Blob { .. } | Call::Img { .. })))
            {
                k += 1;
                prog = gen_program(crate::rng::mix(rc.run_seed, k), &cfg);
            }
            // keep the enumerated file at a few pages
            for c in prog.calls.iter_mut() {
                match c {
                    Call::Blob { data, .. } => data.len %= 700,
                    Call::Img { steps, .. } => {
                        for s in steps.iter_mut() {
                            if let ImgStep::Rep(r) = s {
                                r.data.len %= 500;
                                if let Some(m) = r.mask.as_mut() {
                                    m.len %= 300;
                                }
                            }
                        }
                    }
                    Call::Pc { steps, .. } => {
                        for s in steps.iter_mut() {
                            if let PcStep::Points { n, .. } = s {
                                *n = (*n).min(12);
                            }
                        }
                    }
                    _ => {}
                }
            }
        }
        let source = if rc.index % 2 == 0 {
            Source::Writer
        } else {
            let mut l = Rng::stream(rc.run_seed, "layout");
            Source::Producer { layout: Layout::draw(&mut l), foreign: g.below(32) as u8 }
        };
        let mut c = Rng::stream(rc.run_seed, "chunk-dev");
        let rchunk = Chunk::draw(&mut c);
        if enumerate {
            return Case { prog, source, alter: Alter::AllBitFlips, hist: vec![], rchunk };
        }
        if rc.index % 16 == 9 {
            let mut f = Rng::stream(rc.run_seed, "fault");
            let size = *f.pick(&[64u64, 65, 66, 67, 100, 101, 510, 513, 1021, 1022, 1023, 1025, 1026, 1027, 2050, 4097, 9001, 70_001]);
            let pages = 1 + f.below(6);
            let flip = if f.chance(1, 2) { Some(f.next_u64()) } else { None };
            return Case { prog, source, alter: Alter::OddPageSize { size, pages, seed: f.next_u64(), flip }, hist: vec![], rchunk };
        }
        if rc.index % 64 == 37 {
            // a file beyond 1 MiB: one payload of 1.1..1.6 MiB, one altered page more than 1024
            // pages into it, read in one sequential run (and by validate_crc)
            let mut f = Rng::stream(rc.run_seed, "fault");
            let len = 1_150_000 + f.usize_below(500_000);
            let prog = Program {
                guid: gen_guid(&mut f),
                calls: vec![Call::Blob { data: crate::model::Bytes::draw(&mut f, len), pipe: Chunk::Full, fail_after: None }],
                end: End::Finalize,
                knob: None,
                on_error: OnError::Stop,
            };
            let page = 1030 + f.below((len as u64 / 1020).saturating_sub(1035).max(1));
            let patches = vec![Patch::Xor { offset: page * 1024 + f.below(1024), mask: 1 << f.below(8) }];
            let hist = vec![ROp::Blob { which: 0, sink: Chunk::Full }];
            return Case { prog, source: Source::Writer, alter: Alter::Patches { patches, after_op: None }, hist, rchunk: Chunk::Full };
        }
        let mut h = Rng::stream(rc.run_seed, "hist");
        let hlen = 1 + h.usize_below(8);
        let hist = gen_history(&mut h, hlen);
        let mut f = Rng::stream(rc.run_seed, "fault");
        let image = build_image(&prog, &source, None).map(|(i, _)| i).unwrap_or_else(|_| vec![0u8; 1024]);
        let patches = if rc.index % 8 == 3 { draw_near_miss_checksum(&mut f, &image) } else { draw_alteration(&mut f, image.len()) };
        if f.chance(1, 3) {
            // an instant inside the session: biased to early operations (open, first packets)
            let at = if f.chance(1, 2) { f.below(12) } else { f.below(400) };
            return Case { prog, source, alter: Alter::AtDeviceOp { patches, at }, hist, rchunk };
        }
        let after_op = if f.chance(1, 2) { Some(f.usize_below(hist.len())) } else { None };
        Case { prog, source, alter: Alter::Patches { patches, after_op }, hist, rchunk }
    }
    fn execute(&self, case: &Case, st: &mut RunStats) -> Outcome<Case> {
        run_case(case, st)
    }
    fn shrink(&self, case: &Case) -> Vec<Case> {
        let mut out = Vec::new();
        if let Alter::Patches { patches, after_op } = &case.alter {
            for i in 0..case.hist.len() {
                let mut c = case.clone();
                c.hist.remove(i);
                let ao = match after_op {
                    Some(a) if *a > i => Some(a - 1),
                    Some(a) if *a == i => {
                        if i == 0 {
                            None
                        } else {
                            Some(a - 1)
                        }
                    }
                    x => *x,
                };
                c.alter = Alter::Patches { patches: patches.clone(), after_op: ao };
                out.push(c);
            }
            if patches.len() > 1 {
                for i in 0..patches.len() {
                    let mut p = patches.clone();
                    p.remove(i);
                    out.push(Case { alter: Alter::Patches { patches: p, after_op: *after_op }, ..case.clone() });
                }
            }
            if after_op.is_some() {
                out.push(Case { alter: Alter::Patches { patches: patches.clone(), after_op: None }, ..case.clone() });
            }
            if case.rchunk != Chunk::Full {
                out.push(Case { rchunk: Chunk::Full, ..case.clone() });
            }
        }
        out
    }
    fn wants_digests(&self) -> bool {
        true
    }
    fn cross_check(&self, opts: &Options, runs: u64, digests: &[(u64, u64)], counters: &mut BTreeMap<String, u64>) -> Result<Option<(u64, String, String)>, String> {
        let exe = std::env::var("E57SIM_HW").map_err(|_| "E57SIM_HW (harness built with the crc32c feature) is not set; run through ./check".to_string())?;
        let out = std::env::temp_dir().join(format!("e57sim-c07-hw-{}.digests", std::process::id()));
        let status = std::process::Command::new(&exe)
            .arg("C07")
            .arg(opts.tier.name())
            .arg("--seed")
            .arg(opts.seed.to_string())
            .arg("--runs")
            .arg(runs.to_string())
            .arg("--workers")
            .arg(opts.workers.to_string())
            .arg("--digests")
            .arg(&out)
            .arg("--no-evidence")
            .stdout(std::process::Stdio::piped())
            .stderr(std::process::Stdio::piped())
            .output()
            .map_err(|e| format!("cannot run {exe}: {e}"))?;
        let text = std::fs::read_to_string(&out).unwrap_or_default();
        let _ = std::fs::remove_file(&out);
        let stdout = String::from_utf8_lossy(&status.stdout);
        if status.status.code() == Some(1) {
            let line = stdout.lines().find(|l| l.starts_with("violation:")).unwrap_or("violation in the crc32c build").to_string();
            let idx = line.split("run=").nth(1).and_then(|s| s.split(' ').next()).and_then(|s| s.parse().ok()).unwrap_or(0);
            return Ok(Some((idx, "hw-backend-violation".into(), format!("the build with the crc32c feature reports: {line}"))));
        }
        if status.status.code() != Some(0) {
            return Err(format!("crc32c build exited with {:?}: {}", status.status.code(), String::from_utf8_lossy(&status.stderr).lines().take(3).collect::<Vec<_>>().join(" | ")));
        }
        let mut hw: BTreeMap<u64, u64> = BTreeMap::new();
        for l in text.lines() {
            let mut it = l.split(' ');
            if let (Some(i), Some(d)) = (it.next(), it.next()) {
                if let (Ok(i), Ok(d)) = (i.parse::<u64>(), u64::from_str_radix(d, 16)) {
                    hw.insert(i, d);
                }
            }
        }
        let mut compared = 0u64;
        for (i, d) in digests {
            match hw.get(i) {
                Some(h) if h == d => compared += 1,
                Some(_) => {
                    return Ok(Some((*i, "crc-backends-differ".into(), format!("run {i}: the built-in CRC and the crc32c crate give different files or verdicts (per-run digest differs)"))))
                }
                None => return Err(format!("crc32c build did not report run {i}")),
            }
        }
        if compared == 0 || compared != runs {
            return Err(format!("cross check compared {compared} of {runs} runs"));
        }
        counters.insert("probe.second_crc_backend_compared".into(), compared);
        Ok(None)
    }
}
