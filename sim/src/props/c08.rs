//! C08 – reading untrusted bytes never panics; C09 – bounded time and memory per call.
//! Same runs: valid file -> structure-aware corruption plan -> every reading entry point.

use super::c05::{build_image, Source};
use super::c03::producer_cfg;
use super::writer_rt::KNOBS;
use crate::alloc;
use crate::corrupt::{self, Media, Mut, Plan};
use crate::gen::*;
use crate::history::*;
use crate::program::*;
use crate::refcodec::encode::Layout;
use crate::refcodec;
use crate::rng::{Digest, Rng};
use crate::runner::*;
use crate::simdisk::*;
use e57::{Blob, E57Reader};
use serde::{Deserialize, Serialize};
use serde_json::json;

#[derive(Clone, Debug, Serialize, Deserialize)]
pub struct Case {
    pub prog: Program,
    pub source: Source,
    pub plan: Plan,
    /// option bits for the simple iterator
    pub opts: u8,
    /// extra blob descriptors probed through Blob::new (offset, length)
    pub blob_probes: Vec<(u64, u64)>,
    /// Some(k): the reader is opened on the pristine file and the corruption is applied to the
    /// stored bytes after k read operations
    pub apply_after: Option<usize>,
    pub rchunk: Chunk,
    /// Some((slice, of, values)): instead of `plan`, enumerate tree-level XML mutations of the
    /// source file exhaustively - every element dropped, every numeric leaf / attribute set to each
    /// of the first `values` extreme texts, and every pair (element dropped, numeric sibling of the
    /// same parent set to an extreme) - restricted to the combinations with number % of == slice
    #[serde(default)]
    pub xml_pairs: Option<(u64, u64, usize)>,
}

pub struct Untrusted {
    /// true: C09 (budgets are the oracle); false: C08 (only panics/aborts)
    pub budgets: bool,
}

pub const C08: Untrusted = Untrusted { budgets: false };
pub const C09: Untrusted = Untrusted { budgets: true };

const CEILING: usize = 1 << 30;

struct Budget {
    len: u64,
    pages: u64,
    /// the operation count is only meaningful when the device moves whole requests
    /// (under a one-byte-at-a-time schedule the device itself multiplies the operations)
    full_transfers: bool,
}

/// Peak memory of one call may be this multiple of the file size (plus 64 MiB). Derived from
/// what decoding into the API's own types costs at most: one 16-byte `RecordValue` per stored
/// value of at least one bit (128 bytes per input byte), one 104-byte `Point` per point of at
/// least one bit (832 bytes per input byte), each held in a growable queue (capacity up to twice
/// the length, old and new buffer alive during growth): about 3000. Anything beyond is not
/// "linear in the input" for this API.
pub const MEMORY_MULTIPLE: u64 = 4096;
/// Largest source file of a C08/C09 run: MEMORY_MULTIPLE * SOURCE_CAP + 64 MiB stays below the
/// allocation ceiling of 1 GiB, so the ceiling never cuts off a run that is within the budget.
pub const SOURCE_CAP: usize = 192 * 1024;

struct Meter<'a> {
    ctx: &'a Ctx,
    ops0: u64,
    bytes0: u64,
    alloc0: (usize, u64),
}

impl<'a> Meter<'a> {
    fn start(ctx: &'a Ctx) -> Self {
        let c = ctx.borrow();
        Meter { ctx, ops0: c.op_no, bytes0: c.stats.bytes_read, alloc0: alloc::begin() }
    }
    /// Returns a violation if the call exceeded a budget.
    fn stop(self, what: &str, b: &Budget, st: &mut RunStats) -> Option<(String, String)> {
        let c = self.ctx.borrow();
        let ops = c.op_no - self.ops0;
        let bytes = c.stats.bytes_read - self.bytes0;
        let (peak, calls) = alloc::end(self.alloc0);
        let max_bytes = 16 * b.len + (4 << 20);
        let max_ops = 64 * b.pages + 4096;
        let max_peak = MEMORY_MULTIPLE * b.len + (64 << 20);
        let max_calls = 4096 * b.pages + (1 << 20);
        st.max("permille_of_budget.device_bytes_read", bytes * 1000 / max_bytes.max(1));
        if b.full_transfers {
            st.max("permille_of_budget.device_operations", ops * 1000 / max_ops.max(1));
        }
        st.max("permille_of_budget.peak_allocation", peak as u64 * 1000 / max_peak.max(1));
        st.max("permille_of_budget.allocation_calls", calls * 1000 / max_calls.max(1));
        if bytes > max_bytes {
            return Some(("budget-device-bytes".into(), format!("{what}: read {bytes} device bytes for a {}-byte file (budget {max_bytes})", b.len)));
        }
        if b.full_transfers && ops > max_ops {
            return Some(("budget-device-ops".into(), format!("{what}: {ops} device operations for a {}-page file (budget {max_ops})", b.pages)));
        }
        if peak as u64 > max_peak {
            return Some(("budget-peak-memory".into(), format!("{what}: peak allocation {peak} bytes for a {}-byte file (budget {max_peak})", b.len)));
        }
        if calls > max_calls {
            return Some(("budget-alloc-calls".into(), format!("{what}: {calls} allocation calls for a {}-page file (budget {max_calls})", b.pages)));
        }
        None
    }
}

/// Extreme texts for numeric content, most productive first.
const EXTREMES: [&str; 16] = ["4294967295", "2147483648", "NaN", "-1", "1e999", "", "18446744073709551615", "9223372036854775807", "-9223372036854775808", "inf", "-inf", "0", "4294967296", "abc", "1e-400", "-0"];

fn is_numeric_leaf(e: &crate::refcodec::xml::Elem) -> bool {
    e.elems().next().is_none() && matches!(e.attr("type"), Some("Integer") | Some("Float") | Some("ScaledInteger"))
}

/// All tree-level mutations of a document, as closures over a clone of the tree: returns the
/// number of combinations; `f` is called with (number, description, mutated XML).
fn enumerate_xml_mutations(root: &crate::refcodec::xml::Elem, values: usize, slice: u64, of: u64, f: &mut dyn FnMut(u64, String, String) -> bool) -> u64 {
    use crate::refcodec::xml::{serialize, Elem, Node};
    // paths of all elements (as child-index lists)
    fn paths(e: &Elem, cur: &mut Vec<usize>, out: &mut Vec<Vec<usize>>) {
        for (i, c) in e.children.iter().enumerate() {
            if let Node::Elem(x) = c {
                cur.push(i);
                out.push(cur.clone());
                paths(x, cur, out);
                cur.pop();
            }
        }
    }
    fn at<'a>(root: &'a mut Elem, path: &[usize]) -> &'a mut Elem {
        let mut e = root;
        for i in path {
            e = match &mut e.children[*i] {
                Node::Elem(x) => x,
                _ => unreachable!(),
            };
        }
        e
    }
    let mut all = Vec::new();
    paths(root, &mut Vec::new(), &mut all);
    let vals = &EXTREMES[..values.min(EXTREMES.len())];
    let mut n = 0u64;
    let mut emit = |desc: String, tree: &Elem, f: &mut dyn FnMut(u64, String, String) -> bool| -> bool {
        let k = n;
        n += 1;
        if k % of != slice {
            return true;
        }
        f(k, desc, serialize(tree))
    };
    for path in &all {
        let (parent_path, idx) = path.split_at(path.len() - 1);
        let idx = idx[0];
        let mut probe = root.clone();
        let el = at(&mut probe, path).clone();
        let name = el.qname();
        // 1. element dropped
        {
            let mut t = root.clone();
            at(&mut t, parent_path).children.remove(idx);
            if !emit(format!("drop <{name}>"), &t, f) {
                return n;
            }
        }
        // 2. numeric leaf set to each extreme
        if is_numeric_leaf(&el) {
            for v in vals {
                let mut t = root.clone();
                at(&mut t, path).children = if v.is_empty() { vec![] } else { vec![Node::Text(v.to_string())] };
                if !emit(format!("<{name}> = '{v}'"), &t, f) {
                    return n;
                }
            }
        }
        // 3. every attribute dropped / set to each extreme
        for (ai, a) in el.attrs.iter().enumerate() {
            {
                let mut t = root.clone();
                at(&mut t, path).attrs.remove(ai);
                if !emit(format!("drop attribute {} of <{name}>", a.local), &t, f) {
                    return n;
                }
            }
            if a.local != "type" {
                for v in vals {
                    let mut t = root.clone();
                    at(&mut t, path).attrs[ai].value = v.to_string();
                    if !emit(format!("attribute {} of <{name}> = '{v}'", a.local), &t, f) {
                        return n;
                    }
                }
            }
        }
        // 4. element dropped and a numeric sibling set to an extreme
        let parent = at(&mut probe, parent_path).clone();
        for (si, sib) in parent.children.iter().enumerate() {
            if si == idx {
                continue;
            }
            if let Node::Elem(se) = sib {
                if is_numeric_leaf(se) {
                    for v in vals {
                        let mut t = root.clone();
                        {
                            let p = at(&mut t, parent_path);
                            if let Node::Elem(x) = &mut p.children[si] {
                                x.children = if v.is_empty() { vec![] } else { vec![Node::Text(v.to_string())] };
                            }
                            p.children.remove(idx);
                        }
                        if !emit(format!("drop <{name}> and <{}> = '{v}'", se.qname()), &t, f) {
                            return n;
                        }
                    }
                }
            }
        }
    }
    n
}

/// A file that carries every kind of metadata the reader parses.
fn rich_program() -> Program {
    use crate::model::*;
    let mut r = Rng::new(0xE57);
    let ch = &mut Rng::new(7);
    let std = |i: u8, dt: DType| Rec { name: Name::Std(i), dt };
    let f64t = DType::Double { min: Some(B64::of(-10.0)), max: Some(B64::of(10.0)) };
    let proto = vec![
        std(0, f64t.clone()),
        std(1, f64t.clone()),
        std(2, f64t.clone()),
        std(3, DType::Int { min: 0, max: 2 }),
        std(4, DType::Scaled { min: 0, max: 100000, scale: B64::of(0.001), offset: B64::of(0.0) }),
        std(5, DType::Single { min: None, max: None }),
        std(6, DType::Single { min: None, max: None }),
        std(7, DType::Int { min: 0, max: 2 }),
        std(8, DType::Int { min: 0, max: 4095 }),
        std(9, DType::Int { min: 0, max: 1 }),
        std(10, DType::Int { min: 0, max: 255 }),
        std(11, DType::Int { min: 0, max: 255 }),
        std(12, DType::Int { min: 0, max: 255 }),
        std(13, DType::Int { min: 0, max: 1 }),
        std(14, DType::Int { min: 0, max: 1000 }),
        std(15, DType::Int { min: 0, max: 1000 }),
        std(16, DType::Int { min: 0, max: 7 }),
        std(17, DType::Int { min: 0, max: 7 }),
        std(18, DType::Double { min: None, max: None }),
        std(19, DType::Int { min: 0, max: 1 }),
        Rec { name: Name::Ext { ns: "ext".into(), name: "normalX".into() }, dt: DType::Single { min: None, max: None } },
    ];
    let meta = MetaCfg { density: 1000, nasty_strings: false };
    let mut steps: Vec<PcStep> = gen_pc_fields(&mut r, &proto, &meta).into_iter().map(PcStep::Set).collect();
    steps.push(PcStep::Points { n: 12, seed: 5 });
    let mut calls = vec![
        Call::RegisterExt { ns: "ext".into(), url: "http://example.org/e57/ext".into() },
        Call::CoordMeta(Some("WKT".into())),
        Call::Creation(Some(DT { gps: B64::of(1234.5), atomic: true })),
        Call::Pc { guid: "pc-guid".into(), proto, steps, end: SubEnd::Finalize },
    ];
    for (k, kind) in [RepKind::Pinhole, RepKind::Spherical, RepKind::Cylindrical].iter().enumerate() {
        let mut isteps: Vec<ImgStep> = gen_img_fields(&mut r, &meta).into_iter().map(ImgStep::Set).collect();
        let mut rep = gen_rep(&mut r, *kind, ch);
        rep.data.len = 40 + k;
        rep.mask = Some(Bytes { len: 20 + k, seed: 3, pat: 0 });
        rep.props.width = 640;
        rep.props.height = 480;
        isteps.push(ImgStep::Rep(rep));
        let mut vis = gen_rep(&mut r, RepKind::Visual, ch);
        vis.data.len = 30;
        vis.mask = if k == 0 { Some(Bytes { len: 10, seed: 4, pat: 0 }) } else { None };
        isteps.push(ImgStep::Rep(vis));
        calls.push(Call::Img { guid: format!("img-{k}"), steps: isteps, end: SubEnd::Finalize });
    }
    // a second, small cloud whose intensity and colours are scaled integers with a NEGATIVE scale;
    // their limits are written with the scaled-integer kind of the records
    let neg = |min: i64, max: i64| DType::Scaled { min, max, scale: B64::of(-0.5), offset: B64::of(1.0) };
    let proto2 = vec![std(0, f64t.clone()), std(1, f64t.clone()), std(2, f64t.clone()), std(8, neg(-50, 50)), std(10, neg(0, 255)), std(11, neg(0, 255)), std(12, neg(0, 255))];
    calls.push(Call::Pc { guid: "pc-guid-2".into(), proto: proto2, steps: vec![PcStep::Points { n: 3, seed: 6 }], end: SubEnd::Finalize });
    Program { guid: "file-guid".into(), calls, end: End::Finalize, knob: None, on_error: OnError::Stop }
}

impl Untrusted {
    fn run_xml_pairs(&self, case: &Case, slice: u64, of: u64, values: usize, st: &mut RunStats) -> Outcome<Case> {
        let (pristine, standalone) = match build_image(&case.prog, &case.source, None) {
            Ok(x) => x,
            Err((c, d)) => return Outcome::fail(c, d),
        };
        let map = corrupt::map_of(&pristine).expect("refcodec cannot map the pristine file");
        let root = crate::refcodec::xml::parse(&map.xml).expect("pristine XML parses");
        let mut first: Option<(String, String, Case)> = None;
        let mut done = 0u64;
        let total = enumerate_xml_mutations(&root, values, slice, of, &mut |k, desc, xml| {
            done += 1;
            let plan = Plan { muts: vec![Mut::XmlWhole { xml }], sealed: true, media: vec![] };
            let corrupted = corrupt::apply(&pristine, &map, &plan);
            let budget = Budget { len: corrupted.len() as u64, pages: (corrupted.len() as u64).div_ceil(1024), full_transfers: case.rchunk == Chunk::Full };
            let narrowed = Case { plan: plan.clone(), xml_pairs: None, ..case.clone() };
            let mut local = RunStats::default();
            alloc::set_ceiling(Some(CEILING));
            let res = guard(|| self.drive(&narrowed, &pristine, &corrupted, &standalone, &budget, &mut local));
            alloc::set_ceiling(None);
            for (key, v) in local.maxima {
                st.max(&key, v);
            }
            st.sim_ops += local.sim_ops;
            st.sim_bytes += local.sim_bytes;
            let mut fp = Digest::new();
            fp.u64(4242).u64(k);
            st.fingerprint(fp.finish());
            match res {
                Err((loc, msg)) => {
                    if loc.contains("verif/sim/") {
                        panic!("harness panic at {loc}: {msg}");
                    }
                    let short = loc.rsplit("/repo/").next().unwrap_or(&loc).to_string();
                    first = Some((format!("panic@{short}"), format!("XML mutation #{k} ({desc}): library panicked at {loc}: {msg}"), narrowed));
                    false
                }
                Ok(Some((class, detail))) if self.budgets || class.starts_with("yield") => {
                    first = Some((class, format!("XML mutation #{k} ({desc}): {detail}"), narrowed));
                    false
                }
                Ok(_) => true,
            }
        });
        st.evaluations = done.max(1);
        st.count("xml_tree_mutations_enumerated", done);
        st.count("xml_tree_mutations_in_space", if first.is_none() { total } else { 0 });
        st.probe("xml_pair_enumeration", true);
        if let Some((class, detail, narrowed)) = first {
            return Outcome::fail_narrowed(class, detail, narrowed);
        }
        if st.sample.is_none() {
            st.sample = Some(json!({"mode": "exhaustive tree-level XML mutations of one rich file", "slice": slice, "of": of, "values": &EXTREMES[..values.min(EXTREMES.len())], "combinations_in_slice": done}));
        }
        Outcome::Held
    }

    fn run_case(&self, case: &Case, st: &mut RunStats) -> Outcome<Case> {
        if let Some((slice, of, values)) = case.xml_pairs {
            return self.run_xml_pairs(case, slice, of, values, st);
        }
        st.evaluations = 1;
        let (pristine, standalone) = match build_image(&case.prog, &case.source, None) {
            Ok(x) => x,
            Err((c, d)) => return Outcome::fail(c, d),
        };
        let map = match corrupt::map_of(&pristine) {
            Some(m) => m,
            None => panic!("refcodec cannot map the pristine file"),
        };
        let corrupted = corrupt::apply(&pristine, &map, &case.plan);
        let changed = corrupted != pristine;
        let budget = Budget {
            len: corrupted.len().max(pristine.len()) as u64,
            pages: (corrupted.len().max(pristine.len()) as u64).div_ceil(1024),
            full_transfers: case.rchunk == Chunk::Full,
        };
        alloc::set_ceiling(Some(CEILING));
        if std::env::var("E57SIM_TRACE").is_ok() {
            eprintln!("corrupted file: {} bytes ({} pages), pristine {} bytes", corrupted.len(), corrupted.len() / 1024, pristine.len());
        }
        let r = self.drive(case, &pristine, &corrupted, &standalone, &budget, st);
        alloc::set_ceiling(None);
        if let Some((class, detail)) = r {
            if self.budgets || class.starts_with("yield") {
                return Outcome::fail(class, detail);
            }
        }
        {
            // digest of everything observable in this run: corrupted bytes, outcome counters, device clock
            let mut dg = Digest::new();
            dg.bytes(&corrupted);
            for (k, v) in &st.counters {
                if !k.starts_with("probe.") {
                    dg.str(k).u64(*v);
                }
            }
            dg.u64(st.sim_ops).u64(st.sim_bytes);
            st.digest = dg.finish();
        }
        if changed {
            let mut fp = Digest::new();
            for m in &case.plan.muts {
                fp.str(&format!("{m:?}").chars().take(40).collect::<String>());
            }
            for m in &case.plan.media {
                fp.str(&format!("{m:?}").chars().take(16).collect::<String>());
            }
            fp.u64(case.plan.sealed as u64).u64(case.apply_after.map(|a| a as u64 + 1).unwrap_or(0));
            st.fingerprint(fp.finish());
        }
        st.probe("sealed_corruption", case.plan.sealed && changed);
        st.probe("unsealed_corruption", !case.plan.sealed && changed);
        st.probe("corruption_between_operations", case.apply_after.is_some());
        st.probe("media_fault", !case.plan.media.is_empty());
        if st.sample.is_none() && changed {
            st.sample = Some(json!({"plan": format!("{:?}", case.plan).chars().take(600).collect::<String>(), "apply_after": case.apply_after,
                "file_bytes": pristine.len(), "corrupted_bytes": corrupted.len(), "simple_options": case.opts, "blob_probes": case.blob_probes}));
        }
        Outcome::Held
    }

    /// Drive every reading entry point. Returns the first budget violation (C09) if any; panics
    /// propagate to the runner (C08), aborts and hangs to the parent process.
    fn drive(&self, case: &Case, pristine: &[u8], corrupted: &[u8], standalone: &[(u64, u64)], b: &Budget, st: &mut RunStats) -> Option<(String, String)> {
        let ctx = new_ctx(vec![]);
        let mut first: Option<(String, String)> = None;
        let mut note = |v: Option<(String, String)>| {
            if first.is_none() {
                first = v;
            }
        };
        // static entry points on the corrupted bytes
        {
            let d = SimDisk::new(&ctx, DEV_DISK3, corrupted.to_vec(), &case.rchunk);
            let m = Meter::start(&ctx);
            let r = E57Reader::validate_crc(d);
            st.count("entry.validate_crc.ok", r.is_ok() as u64);
            note(m.stop("validate_crc", b, st));
            let d = SimDisk::new(&ctx, DEV_DISK3, corrupted.to_vec(), &case.rchunk);
            let m = Meter::start(&ctx);
            let r = E57Reader::raw_xml(d);
            st.count("entry.raw_xml.ok", r.is_ok() as u64);
            note(m.stop("raw_xml", b, st));
        }
        let start = if case.apply_after.is_some() { pristine } else { corrupted };
        let disk = SimDisk::new(&ctx, DEV_DISK2, start.to_vec(), &case.rchunk);
        let m = Meter::start(&ctx);
        let opened = E57Reader::new(disk.clone());
        note(m.stop("E57Reader::new", b, st));
        let mut r = match opened {
            Ok(r) => r,
            Err(_) => {
                st.count("entry.open.err", 1);
                st.absorb_ctx(&ctx);
                return first;
            }
        };
        st.count("entry.open.ok", 1);
        st.probe("corrupted_file_opens", true);
        let pcs = r.pointclouds();
        let _ = r.images();
        let _ = r.xml().len();
        let _ = r.extensions();
        let _ = (r.guid().len(), r.format_name().len(), r.creation(), r.coordinate_metadata().map(|s| s.len()), r.library_version().map(|s| s.len()));
        for pc in &pcs {
            let _ = (pc.has_cartesian(), pc.has_spherical(), pc.has_color(), pc.has_intensity(), pc.has_row_column(), pc.has_return(), pc.has_timestamp(), pc.get_cartesian_bounds());
        }
        let mut blobs = all_blobs(&r, standalone);
        for (o, l) in &case.blob_probes {
            blobs.push(Blob::new(*o, *l));
        }
        let mut op_no = 0usize;
        let mut swap = |disk: &SimDisk, op_no: &mut usize| {
            if case.apply_after == Some(*op_no) {
                let mut stt = disk.st.borrow_mut();
                stt.data = corrupted.to_vec();
            }
            *op_no += 1;
        };
        swap(&disk, &mut op_no);
        for (k, pc) in pcs.iter().enumerate().take(8) {
            // raw iterator, step by step
            // every iterator lives in its own block: the harness must keep compiling if the
            // library's iterator types gain a Drop implementation
            {
            let m = Meter::start(&ctx);
            let it = r.pointcloud_raw(pc);
            note(m.stop("pointcloud_raw", b, st));
            if let Ok(mut it) = it {
                let mut n = 0u64;
                loop {
                    let m = Meter::start(&ctx);
                    std::hint::black_box(it.size_hint());
                    let item = it.next();
                    std::hint::black_box(it.size_hint());
                    let v = m.stop(&format!("raw iterator step {n} of point cloud {k}"), b, st);
                    if v.is_some() {
                        note(v);
                        break;
                    }
                    match item {
                        Some(Ok(p)) => {
                            n += 1;
                            std::hint::black_box(&p);
                            if n > pc.records {
                                return Some(("yield-more-than-record-count".into(), format!("raw iterator of point cloud {k} yielded {n} points, recordCount is {}", pc.records)));
                            }
                        }
                        Some(Err(_)) => {
                            st.count("iter.raw.err", 1);
                            break;
                        }
                        None => {
                            st.count("iter.raw.done", 1);
                            break;
                        }
                    }
                }
                st.count("points.raw", n);
            }
            }
            swap(&disk, &mut op_no);
            {
            let m = Meter::start(&ctx);
            let it = r.pointcloud_simple(pc);
            note(m.stop("pointcloud_simple", b, st));
            if let Ok(mut it) = it {
                let o = case.opts;
                it.spherical_to_cartesian(o & 1 != 0);
                it.cartesian_to_spherical(o & 2 != 0);
                it.intensity_to_color(o & 4 != 0);
                it.normalize_intensity(o & 8 != 0);
                it.normalize_color(o & 16 != 0);
                it.apply_pose(o & 32 != 0);
                let mut n = 0u64;
                loop {
                    let m = Meter::start(&ctx);
                    std::hint::black_box(it.size_hint());
                    let item = it.next();
                    std::hint::black_box(it.size_hint());
                    let v = m.stop(&format!("simple iterator step {n} of point cloud {k}"), b, st);
                    if v.is_some() {
                        note(v);
                        break;
                    }
                    match item {
                        Some(Ok(p)) => {
                            n += 1;
                            std::hint::black_box(&p);
                            if n > pc.records {
                                return Some(("yield-more-than-record-count".into(), format!("simple iterator of point cloud {k} yielded {n} points, recordCount is {}", pc.records)));
                            }
                        }
                        Some(Err(_)) => {
                            st.count("iter.simple.err", 1);
                            break;
                        }
                        None => {
                            st.count("iter.simple.done", 1);
                            break;
                        }
                    }
                }
                st.count("points.simple", n);
            }
            }
            swap(&disk, &mut op_no);
        }
        for (i, bl) in blobs.iter().enumerate().take(24) {
            let mut sink = PipeSink::new(&ctx, DEV_PIPE + (i % 60) as u8, &Chunk::Full);
            let m = Meter::start(&ctx);
            let res = r.blob(bl, &mut sink);
            note(m.stop(&format!("blob #{i} (offset {}, length {})", bl.offset, bl.length), b, st));
            match res {
                Ok(n) => {
                    st.count("blob.ok", 1);
                    if n > b.len {
                        return Some(("yield-blob-longer-than-file".into(), format!("blob #{i} returned {n} bytes from a {}-byte file", b.len)));
                    }
                }
                Err(_) => st.count("blob.err", 1),
            }
            swap(&disk, &mut op_no);
        }
        st.absorb_ctx(&ctx);
        first
    }
}

pub fn gen_untrusted(rc: &RunCtx) -> Case {
    let slices: u64 = if rc.tier == Tier::Thorough { 64 } else { 16 };
    // one slice per child-process shard (250 run indices), so that the slices run in parallel
    if rc.index % 250 == 0 && rc.index / 250 < slices {
        let values = if rc.tier == Tier::Thorough { 16 } else { 6 };
        return Case {
            prog: rich_program(),
            source: Source::Writer,
            plan: Plan { muts: vec![], sealed: true, media: vec![] },
            opts: DEFAULT_OPTS,
            blob_probes: vec![],
            apply_after: None,
            rchunk: Chunk::Full,
            xml_pairs: Some((rc.index / 250, slices, values)),
        };
    }
    let mut g = Rng::stream(rc.run_seed, "cfg");
    let mut cfg = producer_cfg(&mut g);
    cfg.nasty_strings = g.chance(1, 4);
    cfg.knob = Some(*g.pick(&KNOBS));
    cfg.max_items = 4;
    let size_targeted = rc.index % 5 == 4;
    if size_targeted {
        // size-targeted plans often need a source beyond small-test scale (a section of several
        // hundred KiB behind a hostile packet)
        cfg.small = false;
        cfg.big_permille = 150;
    }
    let mut prog = gen_program(rc.run_seed, &cfg);
    // always at least one point cloud: most entry points need one
    let mut k = 0u64;
    while !prog.calls.iter().any(|c| matches!(c, Call::Pc { end: SubEnd::Finalize, .. })) && k < 20 {
        k += 1;
        prog = gen_program(crate::rng::mix(rc.run_seed, k), &cfg);
    }
    let source = if rc.index % 2 == 0 {
        Source::Writer
    } else {
        let mut l = Rng::stream(rc.run_seed, "layout");
        Source::Producer { layout: Layout::draw(&mut l), foreign: g.below(32) as u8 }
    };
    // The memory oracle of C09 is "a fixed multiple of the input size": MEMORY_MULTIPLE times the
    // file plus a constant, and everything beyond the allocation ceiling is an abort. Both are
    // consistent only for sources up to SOURCE_CAP bytes, so larger programs are scaled down.
    for _ in 0..16 {
        match build_image(&prog, &source, None) {
            Ok((img, _)) if img.len() > SOURCE_CAP => {
                for c in prog.calls.iter_mut() {
                    match c {
                        Call::Blob { data, .. } => data.len = data.len / 2 + 1,
                        Call::Pc { steps, .. } => {
                            for s in steps.iter_mut() {
                                if let PcStep::Points { n, .. } = s {
                                    *n = *n / 2 + 1;
                                }
                            }
                        }
                        Call::Img { steps, .. } => {
                            for s in steps.iter_mut() {
                                if let ImgStep::Rep(r) = s {
                                    r.data.len = r.data.len / 2 + 1;
                                    if let Some(m) = r.mask.as_mut() {
                                        m.len = m.len / 2 + 1;
                                    }
                                }
                            }
                        }
                        _ => {}
                    }
                }
            }
            _ => break,
        }
    }
    let mut f = Rng::stream(rc.run_seed, "fault");
    let mut blob_probes = Vec::new();
    let plan = match build_image(&prog, &source, None).ok().and_then(|(img, _)| corrupt::map_of(&img).map(|m| (img, m))) {
        Some((img, map)) => {
            let plan = corrupt::draw_plan(&mut f, &img, &map, size_targeted);
            // a manipulated blob section length together with a descriptor that matches it (the
            // reader checks the one against the other)
            for m in &plan.muts {
                if let Mut::BlobHeader { blob, field: 1, value } = m {
                    if !map.blobs.is_empty() {
                        let b = &map.blobs[blob % map.blobs.len()];
                        blob_probes.push((b.phys_offset, value.saturating_sub(16)));
                        blob_probes.push((b.phys_offset, *value));
                    }
                }
            }
            plan
        }
        None => Plan { muts: vec![Mut::AnyBits { seed: 1, n: 1 }], sealed: true, media: vec![] },
    };
    if f.chance(1, 3) {
        for _ in 0..(1 + f.below(3)) {
            let off = *f.pick(&[0u64, 48, 1020, 1024, 1021, u64::MAX, 1 << 40, 2048]);
            let len = *f.pick(&[0u64, 1, 16, 1020, 4096, u64::MAX, u64::MAX - 15, u64::MAX - 16, 1 << 40]);
            blob_probes.push((if f.chance(1, 2) { off } else { f.below(8192) }, len));
        }
    }
    let apply_after = if f.chance(1, 5) { Some(f.usize_below(6)) } else { None };
    let mut c = Rng::stream(rc.run_seed, "chunk-dev");
    Case { prog, source, plan, opts: g.below(64) as u8, blob_probes, apply_after, rchunk: Chunk::draw(&mut c), xml_pairs: None }
}

pub fn shrink_untrusted(case: &Case) -> Vec<Case> {
    let mut out = Vec::new();
    for i in 0..case.plan.muts.len() {
        if case.plan.muts.len() + case.plan.media.len() > 1 {
            let mut c = case.clone();
            c.plan.muts.remove(i);
            out.push(c);
        }
    }
    for i in 0..case.plan.media.len() {
        let mut c = case.clone();
        c.plan.media.remove(i);
        out.push(c);
    }
    for i in 0..case.blob_probes.len() {
        let mut c = case.clone();
        c.blob_probes.remove(i);
        out.push(c);
    }
    if case.apply_after.is_some() {
        out.push(Case { apply_after: None, ..case.clone() });
    }
    if case.rchunk != Chunk::Full {
        out.push(Case { rchunk: Chunk::Full, ..case.clone() });
    }
    if let Source::Producer { layout, foreign } = &case.source {
        if *layout != Layout::plain(layout.seed) {
            out.push(Case { source: Source::Producer { layout: Layout::plain(layout.seed), foreign: *foreign }, ..case.clone() });
        }
    }
    if case.opts != DEFAULT_OPTS {
        out.push(Case { opts: DEFAULT_OPTS, ..case.clone() });
    }
    out
}

fn regression_cases() -> Vec<(String, Case)> {
    use crate::model::*;
    let proto = vec![
        Rec { name: Name::Std(0), dt: DType::Int { min: 0, max: 1000 } },
        Rec { name: Name::Std(1), dt: DType::Int { min: 0, max: 1000 } },
        Rec { name: Name::Std(2), dt: DType::Int { min: 0, max: 1000 } },
        Rec { name: Name::Std(8), dt: DType::Double { min: Some(B64::of(0.0)), max: Some(B64::of(1.0)) } },
    ];
    let prog = Program {
        guid: "file".into(),
        calls: vec![
            Call::Blob { data: Bytes { len: 100, seed: 3, pat: 0 }, pipe: Chunk::Full, fail_after: None },
            Call::Pc { guid: "pc".into(), proto, steps: vec![PcStep::Points { n: 20, seed: 5 }], end: SubEnd::Finalize },
        ],
        end: End::Finalize,
        knob: None,
        on_error: OnError::Stop,
    };
    let base = Case { prog, source: Source::Writer, plan: Plan { muts: vec![], sealed: true, media: vec![] }, opts: DEFAULT_OPTS, blob_probes: vec![], apply_after: None, rchunk: Chunk::Full, xml_pairs: None };
    vec![
        (
            "F13 every record zero-width".into(),
            Case { plan: Plan { muts: vec![Mut::XmlProtoZero { nth: 0, keep_first: false }], sealed: true, media: vec![] }, ..base.clone() },
        ),
        (
            "F7 NaN intensity limit".into(),
            Case {
                plan: Plan { muts: vec![Mut::XmlReplace { from: ">0</intensityMinimum>".into(), to: ">NaN</intensityMinimum>".into(), nth: 0 }], sealed: true, media: vec![] },
                ..base.clone()
            },
        ),
        (
            "F17 blob section length u64::MAX".into(),
            Case { plan: Plan { muts: vec![Mut::Raw { logical: 56, bytes: vec![0xFF; 8] }], sealed: true, media: vec![] }, blob_probes: vec![(48, 100), (48, u64::MAX)], ..base.clone() },
        ),
        ("media: truncated by half a page".into(), Case { plan: Plan { muts: vec![], sealed: false, media: vec![Media::TruncateBytes { len: 1500 }] }, ..base }),
    ]
}

impl Prop for Untrusted {
    type Case = Case;
    fn id(&self) -> &'static str {
        if self.budgets {
            "C09"
        } else {
            "C08"
        }
    }
    fn meta(&self) -> Meta {
        let common = "16 run indices (64 in thorough) enumerate EXHAUSTIVELY the tree-level XML mutations of one rich file (point cloud with every attribute group, all metadata, a second cloud with negatively scaled integer intensity and colours, three images with all representation kinds and masks): every element dropped; every numeric leaf and every attribute set to each of 6 (16) extreme texts; every pair (element dropped, numeric sibling of the same parent set to an extreme) - sealed, all entry points driven. Other indices: valid file (crate writer or refcodec producer, at least one point cloud) -> corruption plan located with refcodec's map of the file: 1-3 mutations of header fields, XML numbers (NaN, inf, 1e999, -0, i64/u64 extremes, empty, garbage), XML attributes (fileOffset/recordCount/length -> 0, huge, unaligned, inside a checksum, another section; minimum/maximum/scale/offset/precision/type), dropped / duplicated / moved / emptied elements, DTD and entity templates, ill-formed fragments, compressed-vector and blob section header fields, packet header fields and stream lengths, payload bits; then all page checksums recomputed (3 of 4 plans: the mutation reaches the parsers) or left as they are; plus stale / misdirected pages, truncation and extension by pages or odd byte counts (1 of 5 plans); every fifth plan is size-targeted (huge recordCount, every record zero-width, maximal stream lengths, XML length at the 10 MiB cap, page size near 1 MiB, huge blob lengths). Applied before open, or to the stored bytes between two operations of an open reader. Every entry point is driven: validate_crc, raw_xml, E57Reader::new, listings and descriptor helpers, raw and simple iteration (drawn option vector) step by step to the first Err/None, every listed blob plus Blob::new probes with hostile offsets/lengths. Runs execute in child processes (abort, hang > 20 s and allocations beyond a 1 GiB ceiling are attributed to the run in flight).";
        if self.budgets {
            Meta {
                level: "exploration",
                rule: format!("{common} Oracle (C09): per API call (every single iterator step is a call) device bytes read <= 16*len + 4 MiB, device operations <= 64*pages + 4096 (judged under full-transfer schedules only), peak allocation <= 4096*len + 64 MiB (4096 = what decoding into the API's 16-byte values and 104-byte points costs per stored bit, with growth slack; sources are capped at 192 KiB so that this budget stays below the 1 GiB allocation ceiling), allocation calls <= 4096*pages + 2^20 (len = stored file size); iterators yield <= recordCount points; blob() returns <= len bytes. Distinct = hash(mutation descriptors, sealing, media faults, instant); non-trivial = the plan changed the stored bytes"),
                assumptions: vec!["budget constants separate 'linear in the input' from 'unbounded'; they are not performance bounds".into(), "non-termination that touches neither device nor allocator is caught only by the 20 s watchdog".into()],
                real: vec!["e57 crate reader paths".into(), "roxmltree".into()],
                stub: vec!["SimDisk (counts operations and bytes)".into(), "counting allocator with ceiling".into(), "refcodec as field locator".into(), "child-process watchdog".into()],
                required_probes: vec!["xml_pair_enumeration".into(), "sealed_corruption".into(), "unsealed_corruption".into(), "corruption_between_operations".into(), "media_fault".into(), "corrupted_file_opens".into()],
            }
        } else {
            Meta {
                level: "exploration",
                rule: format!("{common} Oracle (C08): no panic (catch_unwind, harness built with overflow checks and debug assertions), no abort (child process). Distinct = hash(mutation descriptors, sealing, media faults, instant); non-trivial = the plan changed the stored bytes"),
                assumptions: vec!["'all byte strings' is explored by structure-aware mutation of valid files, not uniformly".into()],
                real: vec!["e57 crate reader paths (overflow-checks = on, debug-assertions = on)".into(), "roxmltree".into()],
                stub: vec!["SimDisk".into(), "refcodec as field locator".into(), "child-process watchdog".into()],
                required_probes: vec!["xml_pair_enumeration".into(), "sealed_corruption".into(), "unsealed_corruption".into(), "corruption_between_operations".into(), "media_fault".into(), "corrupted_file_opens".into()],
            }
        }
    }
    fn preflight(&self) -> Result<(), String> {
        refcodec::calibrate(false).map(|_| ())
    }
    fn plan(&self, tier: Tier) -> Plan_ {
        match tier {
            Tier::Quick => Plan_ { runs: 20_000, time_box_s: None, isolation: Isolation::Children },
            Tier::Thorough => Plan_ { runs: 2_000_000, time_box_s: Some(480), isolation: Isolation::Children },
        }
    }
    fn generate(&self, rc: &RunCtx) -> Case {
        gen_untrusted(rc)
    }
    fn execute(&self, case: &Case, st: &mut RunStats) -> Outcome<Case> {
        self.run_case(case, st)
    }
    fn shrink(&self, case: &Case) -> Vec<Case> {
        shrink_untrusted(case)
    }
    fn regressions(&self) -> Vec<(String, Case)> {
        regression_cases()
    }
}

use crate::runner::Plan as Plan_;
