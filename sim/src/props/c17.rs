//! C17 – read operations are independent of what was read before.
//!
//! Histories on one open reader (early termination, static damage, transient device faults)
//! against the fresh-reader oracle.

use super::writer_rt::*;
use crate::gen::*;
use crate::history::*;
use crate::program::*;
use crate::refcodec::page;
use crate::rng::{Digest, Rng};
use crate::runner::*;
use crate::simdisk::*;
use e57::E57Reader;
use serde::{Deserialize, Serialize};
use serde_json::json;

#[derive(Clone, Debug, Serialize, Deserialize)]
pub struct Case {
    pub prog: Program,
    /// static damage applied to the stored bytes before the reader is opened
    pub damage: Vec<Patch>,
    /// recompute page checksums after the damage (damaged sections instead of damaged pages)
    pub sealed: bool,
    pub hist: Vec<ROp>,
    /// transient device faults: (index of the history op, offset of the device op inside it, kind)
    pub faults: Vec<(usize, u64, FaultKind)>,
    /// failing sinks: (index of the history op, n-th write to the sink inside it) reports an error
    #[serde(default)]
    pub sink_faults: Vec<(usize, u64)>,
    pub rchunk: Chunk,
}

pub struct C17;

pub fn source_cfg(g: &mut Rng, min_items: bool) -> ProgCfg {
    let _ = min_items;
    ProgCfg {
        max_items: 5,
        knob: Some(*g.pick(&KNOBS)),
        placement_residue: if g.chance(1, 2) { Some((g.below(255) * 4) as u32) } else { None },
        nasty_strings: false,
        ext: true,
        allow_abandon: false,
        max_points_knob_off: 0,
        custom_xml: false,
        small: false,
        big_permille: 10,
    }
}

/// Write the program fault-free and return (image, standalone blob descriptors).
pub fn make_source(prog: &Program) -> Result<(Vec<u8>, Vec<(u64, u64)>), (String, String)> {
    let wc = WriterCase { prog: prog.clone(), wchunk: Chunk::Full, rchunk: Chunk::Full, sink: Chunk::Full, legacy_blob_headers: false };
    let w = write_case(&wc);
    if let Some(c) = call_contradiction(&w.exec) {
        return Err(c);
    }
    if !w.exec.completed {
        return Err(("not-finalized".into(), "source program did not finalize".into()));
    }
    Ok((w.image, w.exec.blob_descs))
}

/// The same operation on a freshly opened reader whose device injects `kind` at the first read of
/// page `page` inside the operation. None if the fresh reader never reads that page there (it
/// still holds it from the open) or cannot be opened.
fn fresh_result_with_fault(image: &[u8], standalone: &[(u64, u64)], op: &ROp, page: u64, kind: &FaultKind) -> Option<OpResult> {
    // fault-free pass to find the device operation
    let ctx = new_ctx(vec![]);
    let d = SimDisk::new(&ctx, DEV_DISK3, image.to_vec(), &Chunk::Full);
    let mut r = E57Reader::new(d).ok()?;
    let pcs = r.pointclouds();
    let blobs = all_blobs(&r, standalone);
    ctx.borrow_mut().record_ops = true;
    let rec = run_op(&mut r, &ctx, &pcs, &blobs, op, DEV_PIPE + 200);
    let at = ctx.borrow().log.iter().find(|o| o.no >= rec.op_from && o.no < rec.op_to && o.dev == DEV_DISK3 && o.kind == OpKind::Read && o.offset / 1024 == page).map(|o| o.no)?;
    drop(r);
    let ctx = new_ctx(vec![Fault { at, kind: kind.clone() }]);
    let d = SimDisk::new(&ctx, DEV_DISK3, image.to_vec(), &Chunk::Full);
    let mut r = E57Reader::new(d).ok()?;
    let pcs = r.pointclouds();
    let blobs = all_blobs(&r, standalone);
    let res = run_op(&mut r, &ctx, &pcs, &blobs, op, DEV_PIPE + 200).result;
    if ctx.borrow().fired.is_empty() {
        return None;
    }
    Some(res)
}

fn fresh_result(image: &[u8], standalone: &[(u64, u64)], op: &ROp) -> Option<OpResult> {
    let ctx = new_ctx(vec![]);
    let d = SimDisk::new(&ctx, DEV_DISK3, image.to_vec(), &Chunk::Full);
    let mut r = E57Reader::new(d).ok()?;
    let pcs = r.pointclouds();
    let blobs = all_blobs(&r, standalone);
    Some(run_op(&mut r, &ctx, &pcs, &blobs, op, DEV_PIPE + 200).result)
}

fn run_case(case: &Case, st: &mut RunStats) -> Outcome<Case> {
    set_poll_after_error(true);
    st.evaluations = 1;
    let (mut image, standalone) = match make_source(&case.prog) {
        Ok(x) => x,
        Err((c, d)) => return Outcome::fail(c, d),
    };
    for p in &case.damage {
        p.apply(&mut image);
    }
    if case.sealed && image.len() % 1024 == 0 {
        page::reseal(&mut image);
    }
    // fault-free pass to learn the device-operation range of every history op
    let ctx0 = new_ctx(vec![]);
    ctx0.borrow_mut().record_ops = !case.sink_faults.is_empty();
    let run0 = reader_run(&image, &ctx0, &case.rchunk, &standalone, &case.hist, false);
    if run0.open.is_err() {
        // damage hit the header or XML: nothing to compare (trivial run)
        st.count("source_unopenable", 1);
        return Outcome::Held;
    }
    let mut faults = Vec::new();
    for (i, off, kind) in &case.faults {
        if let Some(rec) = run0.recs.get(*i) {
            let span = rec.op_to - rec.op_from;
            if span > 0 {
                faults.push(Fault { at: rec.op_from + off % span, kind: kind.clone() });
            }
        }
    }
    for (i, n) in &case.sink_faults {
        if let Some(rec) = run0.recs.get(*i) {
            let writes: Vec<u64> = ctx0.borrow().log.iter().filter(|o| o.no >= rec.op_from && o.no < rec.op_to && o.dev >= DEV_PIPE && o.kind == OpKind::Write).map(|o| o.no).collect();
            if !writes.is_empty() {
                faults.push(Fault { at: writes[(*n as usize) % writes.len()], kind: FaultKind::Error });
            }
        }
    }
    st.probe("sink_error_inside_blob_extraction", !case.sink_faults.is_empty() && faults.iter().any(|f| ctx0.borrow().log.iter().any(|o| o.no == f.at && o.dev >= DEV_PIPE)));
    let ctx = new_ctx(faults.clone());
    ctx.borrow_mut().record_ops = !faults.is_empty();
    let mut same_fault_compared = 0u64;
    let run = reader_run(&image, &ctx, &case.rchunk, &standalone, &case.hist, false);
    st.absorb_ctx(&ctx);
    if run.open.is_err() {
        return Outcome::fail("open-differs", "second open of the same bytes failed".to_string());
    }
    let failed_ops: Vec<u64> = ctx.borrow().log.iter().filter(|o| o.err != 0).map(|o| o.no).collect();
    let mut dg = Digest::new();
    let mut any_failed_before = false;
    let mut partial_before = false;
    let mut cache_hit_after_failed_read = false;
    for (i, rec) in run.recs.iter().enumerate() {
        let fresh = match fresh_result(&image, &standalone, &case.hist[i]) {
            Some(f) => f,
            None => return Outcome::fail("fresh-open-failed", "fresh reader could not be opened on the same bytes".to_string()),
        };
        let faulted = failed_ops.iter().any(|n| rec.op_from <= *n && *n < rec.op_to);
        let ok = if faulted { rec.result.err_or_same(&fresh) } else { rec.result.same_as(&fresh) };
        if !ok {
            let class = if faulted {
                "faulted-op-wrong-data"
            } else if any_failed_before {
                "differs-after-failure"
            } else if partial_before {
                "differs-after-partial-iteration"
            } else {
                "differs-from-fresh"
            };
            return Outcome::fail(
                class,
                format!(
                    "history op #{i} {:?}: on the used reader {}, on a fresh reader {}{} (ops before: {})",
                    case.hist[i],
                    rec.result.brief(),
                    fresh.brief(),
                    rec.result.first_point_difference(&fresh).map(|d| format!("; {d}")).unwrap_or_default(),
                    run.recs[..i].iter().map(|r| r.result.brief()).collect::<Vec<_>>().join("; ")
                ),
            );
        }
        // exactly one injected fault, at a read of the reader's device inside this operation: the
        // outcome must also be that of a fresh reader which meets the same fault at its first read
        // of the same page (whether a fault surfaces or is absorbed must not depend on the history)
        let mine: Vec<&Fault> = faults.iter().filter(|f| rec.op_from <= f.at && f.at < rec.op_to).collect();
        // ... and no other device operation of this history op failed (the second half of a
        // short-then-error fault of an EARLIER operation can fire here)
        let other_failures = ctx.borrow().log.iter().any(|o| o.err != 0 && rec.op_from <= o.no && o.no < rec.op_to && !mine.iter().any(|f| f.at == o.no));
        if std::env::var("E57SIM_TRACE").is_ok() {
            eprintln!("op #{i} range {}..{} mine={:?} failing={:?} fired={:?}", rec.op_from, rec.op_to, mine, ctx.borrow().log.iter().filter(|o| o.err != 0).map(|o| (o.no, o.err, o.dev, o.kind)).collect::<Vec<_>>(), ctx.borrow().fired.iter().map(|f| (f.no, f.name)).collect::<Vec<_>>());
        }
        if let ([f], false) = (&mine[..], other_failures) {
            let hit = ctx.borrow().log.iter().find(|o| o.no == f.at).cloned();
            // the fault itself fired there, and nothing else (the pending second half of an
            // earlier short-then-error fault takes precedence over the fault planned for that op)
            let fired = {
                let c = ctx.borrow();
                let at: Vec<&Fired> = c.fired.iter().filter(|x| x.no == f.at).collect();
                at.len() == 1 && at[0].name == f.kind.name()
            };
            if let (true, Some(o)) = (fired, hit) {
                if o.dev == DEV_DISK2 && o.kind == OpKind::Read && !matches!(f.kind, FaultKind::Mutate(_)) {
                    let page = o.offset / 1024;
                    let first_of_page = !ctx.borrow().log.iter().any(|p| p.no >= rec.op_from && p.no < o.no && p.dev == DEV_DISK2 && p.kind == OpKind::Read && p.offset / 1024 == page);
                    if first_of_page {
                        if let Some(ff) = fresh_result_with_fault(&image, &standalone, &case.hist[i], page, &f.kind) {
                            same_fault_compared += 1;
                            if ff.is_err() != rec.result.is_err() {
                                return Outcome::fail(
                                    "fault-outcome-depends-on-history",
                                    format!(
                                        "history op #{i} {:?} with {} injected at a read of page {page}: on the used reader {}, on a fresh reader with the same fault {} (ops before: {})",
                                        case.hist[i],
                                        f.kind.name(),
                                        rec.result.brief(),
                                        ff.brief(),
                                        run.recs[..i].iter().map(|r| r.result.brief()).collect::<Vec<_>>().join("; ")
                                    ),
                                );
                            }
                        }
                    }
                }
            }
        }
        if any_failed_before && !faulted && !rec.result.is_err() && rec.op_to > rec.op_from {
            cache_hit_after_failed_read = true;
        }
        if rec.result.is_err() {
            any_failed_before = true;
        }
        if let OpResult::Raw { end: Ending::Taken, .. } | OpResult::Simple { end: Ending::Taken, .. } = &rec.result {
            partial_before = true;
        }
        rec.result.digest(&mut dg);
    }
    st.probe("op_after_failed_op_succeeds", cache_hit_after_failed_read);
    st.probe("partially_consumed_iterator", partial_before);
    st.probe("transient_fault_fired", !failed_ops.is_empty());
    st.probe("short_operation_after_scan_of_64_pages", run.recs.windows(2).any(|w| w[0].op_to - w[0].op_from >= 128 && !w[0].result.is_err() && w[1].op_to > w[1].op_from && w[1].op_to - w[1].op_from < 40));
    st.count("faulted_ops_compared_with_fresh_reader_under_same_fault", same_fault_compared);
    st.probe("static_damage_seen", case.damage.len() > 0 && run.recs.iter().any(|r| r.result.is_err()) && failed_ops.is_empty());
    st.digest = dg.finish();
    let nontrivial = run.recs.iter().filter(|r| r.op_to > r.op_from).count() >= 2;
    if nontrivial {
        let mut fp = Digest::new();
        for (op, rec) in case.hist.iter().zip(run.recs.iter()) {
            match op {
                ROp::Xml => fp.u64(1),
                ROp::Pointclouds => fp.u64(2),
                ROp::Images => fp.u64(3),
                ROp::Raw { pc, take } => fp.u64(4).u64(*pc as u64 % 4).u64(take.map(|t| t.min(3) as u64).unwrap_or(9)),
                ROp::Simple { pc, opts, take } => fp.u64(5).u64(*pc as u64 % 4).u64(*opts as u64).u64(take.map(|t| t.min(3) as u64).unwrap_or(9)),
                ROp::Blob { which, .. } => fp.u64(6).u64(*which as u64 % 8),
            };
            fp.u64(rec.result.is_err() as u64);
        }
        for f in &faults {
            fp.str(f.kind.name());
        }
        fp.u64(case.damage.len() as u64).u64(case.sealed as u64);
        st.fingerprint(fp.finish());
    }
    if st.sample.is_none() {
        st.sample = Some(json!({"history": case.hist.iter().map(|o| format!("{o:?}")).collect::<Vec<_>>(),
            "results": run.recs.iter().map(|r| r.result.brief()).collect::<Vec<_>>(),
            "damage": format!("{:?}", case.damage), "sealed": case.sealed,
            "faults": faults.iter().map(|f| format!("{}@{}", f.kind.name(), f.at)).collect::<Vec<_>>()}));
    }
    Outcome::Held
}

/// Damage patches located with the descriptors the crate itself reports (pages of sections).
pub fn draw_damage(g: &mut Rng, image: &[u8], standalone: &[(u64, u64)], sealed: bool) -> Vec<Patch> {
    let mut out = Vec::new();
    let ctx = new_ctx(vec![]);
    let d = SimDisk::new(&ctx, DEV_DISK3, image.to_vec(), &Chunk::Full);
    let r = match E57Reader::new(d) {
        Ok(r) => r,
        Err(_) => return out,
    };
    let mut anchors: Vec<u64> = r.pointclouds().iter().map(|p| p.file_offset).collect();
    anchors.extend(all_blobs(&r, standalone).iter().map(|b| b.offset));
    if anchors.is_empty() {
        return out;
    }
    let n = 1 + g.usize_below(2);
    for _ in 0..n {
        let a = *g.pick(&anchors);
        let off = if sealed {
            // section header, first packet header, or somewhere in the first two pages of the section
            a + *g.pick(&[0u64, 8, 9, 16, 24, 32, 33, 34, 36, 38, 40]) + if g.chance(1, 3) { g.below(1500) } else { 0 }
        } else {
            a + g.below(3000)
        };
        if (off as usize) < image.len() {
            out.push(Patch::Xor { offset: off, mask: 1 << g.below(8) });
        }
    }
    out
}

/// A long sequential scan (64..130 pages, every page-count residue modulo 16 over the run index)
/// followed by a short operation on the neighbouring item, with a damaged page in the item
/// behind it that the short operation does not need: state a reader may build up during a long
/// scan (read-ahead, adaptive buffering) must not leak into what follows.
fn long_scan_case(rc: &RunCtx) -> Case {
    use crate::model::*;
    let mut r = Rng::stream(rc.run_seed, "scan");
    let k = ((rc.index / 16) % 16) as usize;
    // now and then beyond 256 pages (another size at which caches and tables wrap)
    let extra_pages = if r.chance(1, 6) { 200 + r.usize_below(200) } else { 16 * r.usize_below(4) };
    let big_bytes = (64 + k + extra_pages) * 1020 + r.usize_below(1020);
    let xyz = |r: &mut Rng| -> Vec<Rec> {
        let dt = if r.chance(1, 2) { DType::Double { min: None, max: None } } else { DType::Single { min: None, max: None } };
        [0u8, 1, 2].iter().map(|i| Rec { name: Name::Std(*i), dt: dt.clone() }).collect()
    };
    let mut calls = Vec::new();
    let mut hist = Vec::new();
    let mut n_pcs = 0usize;
    let mut n_blobs = 0usize;
    // small things in front so that the scan does not start at a fixed page
    if r.chance(1, 2) {
        let n = r.usize_below(5000);
        calls.push(Call::Blob { data: Bytes::draw(&mut r, n), pipe: Chunk::Full, fail_after: None });
        n_blobs += 1;
    }
    // the long item
    if r.chance(1, 2) {
        calls.push(Call::Blob { data: Bytes::draw(&mut r, big_bytes), pipe: Chunk::Full, fail_after: None });
        hist.push(ROp::Blob { which: n_blobs, sink: Chunk::Full });
        n_blobs += 1;
    } else {
        let proto = xyz(&mut r);
        let per_point: usize = proto.iter().map(|p| p.dt.bits() as usize / 8).sum();
        calls.push(Call::Pc { guid: gen_guid(&mut r), proto, steps: vec![PcStep::Points { n: big_bytes / per_point, seed: r.next_u64() }], end: SubEnd::Finalize });
        hist.push(if r.chance(1, 2) { ROp::Raw { pc: n_pcs, take: None } } else { ROp::Simple { pc: n_pcs, opts: r.below(64) as u8, take: None } });
        n_pcs += 1;
    }
    // the short neighbour
    if r.chance(1, 2) {
        let n = 1 + r.usize_below(4000);
        calls.push(Call::Blob { data: Bytes::draw(&mut r, n), pipe: Chunk::Full, fail_after: None });
        hist.push(ROp::Blob { which: n_blobs, sink: Chunk::Full });
        n_blobs += 1;
    } else {
        let proto = xyz(&mut r);
        let n = 1 + r.usize_below(150);
        calls.push(Call::Pc { guid: gen_guid(&mut r), proto, steps: vec![PcStep::Points { n, seed: r.next_u64() }], end: SubEnd::Finalize });
        hist.push(ROp::Raw { pc: n_pcs, take: None });
    }
    // the item behind it, at least 17 pages
    let behind = n_blobs;
    let n = 17 * 1020 + r.usize_below(3000);
    calls.push(Call::Blob { data: Bytes::draw(&mut r, n), pipe: Chunk::Full, fail_after: None });
    // the library's own packet capacity half of the time: byte streams of ~20 KiB per packet
    let knob = if r.chance(1, 2) { None } else { Some(*r.pick(&KNOBS)) };
    let prog = Program { guid: gen_guid(&mut r), calls, end: End::Finalize, knob, on_error: OnError::Stop };
    let extra = r.usize_below(3);
    hist.extend(gen_history(&mut r, extra));
    if r.chance(1, 3) {
        // the short operation once more in front, on the still fresh reader
        let x = hist[1].clone();
        hist.insert(0, x);
    }
    let mut damage = Vec::new();
    if let Ok((_, standalone)) = make_source(&prog) {
        if let Some((off, _)) = standalone.get(behind) {
            // within the 15 pages behind the start of that item
            damage.push(Patch::Xor { offset: off + 40 + r.below(15 * 1024), mask: 1 << r.below(8) });
        }
    }
    let mut faults = Vec::new();
    if r.chance(1, 3) {
        // one or two device faults somewhere inside the long scan (or the operations after it)
        let n = 1 + r.usize_below(2);
        for _ in 0..n {
            let kind = match r.below(4) {
                0 => FaultKind::Error,
                1 => FaultKind::ShortThenError { bytes: 1 + r.below(1023) as u32 },
                2 => FaultKind::Transient { kind: r.below(6) as u8 },
                _ => FaultKind::Error,
            };
            let at_op = if r.chance(2, 3) { 0 } else { r.usize_below(hist.len()) };
            faults.push((at_op, r.below(400), kind));
        }
        // the long operation once more at the end: pages it loaded before and around the fault
        // are loaded again on the same reader
        let again: Vec<ROp> = hist.iter().take(2).cloned().collect();
        hist.extend(again);
    }
    let mut c = Rng::stream(rc.run_seed, "chunk-dev");
    Case { prog, damage, sealed: false, hist, faults, sink_faults: vec![], rchunk: Chunk::draw(&mut c) }
}

impl Prop for C17 {
    type Case = Case;
    fn id(&self) -> &'static str {
        "C17"
    }
    fn meta(&self) -> Meta {
        Meta {
            level: "exploration",
            rule: "source file = seeded writer program (0-5 items, knob on) written fault-free; optionally static damage located with the crate's own descriptors: 1-2 bit flips in section pages, unsealed (damaged pages) or resealed (damaged section / packet headers); history of 2-12 seeded read operations on ONE open E57Reader<SimDisk> (xml, listings, raw / simple iteration with early termination after 0..40 points and drawn option bits, blob extraction into chunked sinks) under a seeded short-read schedule; in every second run up to three transient device faults (hard error; short transfer then error; TimedOut / WouldBlock / Interrupted) at drawn device operations INSIDE drawn history operations, or one transient condition in EVERY operation of the history; everything else fault-free. Every sixteenth run is a long-scan case: an item of 64..130 pages (blob or point cloud, page count over every residue modulo 16, half of the time written with the library's own packet capacity so that byte streams of ~20 KiB per packet are read) is read to its end, then its short neighbour, while a page of the item behind the neighbour is damaged; a third of these cases carry device faults inside the scan and repeat the scan behind them; one case in six scans more than 256 pages. A quarter of the blob extractions have a sink that reports an error at one of its first writes. Iterators are polled three more times after their first error: what they hand out then belongs to the operation's result. Oracle: each operation without an injected fault equals the result of the same operation on a freshly opened reader over the same stored bytes; an operation with an injected fault is Err (what it yielded before is a prefix of the fresh result) or equals the fresh result; where exactly one fault hit the first read of a page inside an operation, the operation must in addition fail or succeed exactly as on a fresh reader whose device injects the same fault at its first read of that page (whether a fault surfaces or is absorbed must not depend on the history). Distinct = hash(history op kinds/targets/early-termination class, Ok/Err pattern, fault kinds, damage mode); non-trivial = at least two operations touched the device".into(),
            assumptions: vec![
                "errors are compared as 'is Err' only".into(),
                "iterators are driven to the first Err or None".into(),
            ],
            real: vec!["e57 crate reader paths (E57Reader, PagedReader page cache, QueueReader, both iterators, Blob::read)".into(), "roxmltree".into()],
            stub: vec!["SimDisk with transient fault plan".into(), "fresh-reader oracle".into(), "file produced by the crate's own writer".into()],
            required_probes: vec![
                "op_after_failed_op_succeeds".into(),
                "partially_consumed_iterator".into(),
                "transient_fault_fired".into(),
                "static_damage_seen".into(),
                "short_operation_after_scan_of_64_pages".into(),
            ],
        }
    }
    fn plan(&self, tier: Tier) -> Plan {
        match tier {
            Tier::Quick => Plan { runs: 16000, time_box_s: None, isolation: Isolation::Threads },
            Tier::Thorough => Plan { runs: 4_000_000, time_box_s: Some(420), isolation: Isolation::Threads },
        }
    }
    fn generate(&self, rc: &RunCtx) -> Case {
        if rc.index % 16 == 7 {
            return long_scan_case(rc);
        }
        let mut g = Rng::stream(rc.run_seed, "cfg");
        let cfg = source_cfg(&mut g, true);
        let prog = gen_program(rc.run_seed, &cfg);
        let mut h = Rng::stream(rc.run_seed, "hist");
        let hlen = 2 + h.usize_below(11);
        let hist = gen_history(&mut h, hlen);
        let mut f = Rng::stream(rc.run_seed, "fault");
        let mut damage = Vec::new();
        let mut sealed = false;
        if rc.index % 3 == 1 {
            if let Ok((image, standalone)) = make_source(&prog) {
                sealed = f.chance(1, 2);
                damage = draw_damage(&mut f, &image, &standalone, sealed);
            }
        }
        let mut faults = Vec::new();
        if rc.index % 2 == 1 {
            if rc.index % 8 == 5 {
                // a transient condition (timeout, would-block, EINTR) in every operation of the history
                for i in 0..hist.len() {
                    let kind = match f.below(5) {
                        0 => FaultKind::Interrupted,
                        1 | 2 => FaultKind::Transient { kind: 0 },
                        _ => FaultKind::Transient { kind: 1 },
                    };
                    faults.push((i, f.below(24), kind));
                }
            } else {
                let n = 1 + f.usize_below(3);
                for _ in 0..n {
                    let kind = match f.below(8) {
                        0..=2 => FaultKind::Error,
                        3..=5 => FaultKind::ShortThenError { bytes: 1 + f.below(1023) as u32 },
                        6 => FaultKind::Transient { kind: f.below(6) as u8 },
                        _ => FaultKind::Interrupted,
                    };
                    faults.push((f.usize_below(hist.len()), f.below(64), kind));
                }
            }
        }
        // the sink of a blob extraction fails at one of its first writes (with damaged pages in
        // the blob: while the page layer has delivered part of a chunk)
        let mut sink_faults = Vec::new();
        for (i, op) in hist.iter().enumerate() {
            if matches!(op, ROp::Blob { .. }) && f.chance(1, 4) {
                sink_faults.push((i, f.below(3)));
            }
        }
        let mut c = Rng::stream(rc.run_seed, "chunk-dev");
        Case { prog, damage, sealed, hist, faults, sink_faults, rchunk: Chunk::draw(&mut c) }
    }
    fn execute(&self, case: &Case, st: &mut RunStats) -> Outcome<Case> {
        run_case(case, st)
    }
    fn shrink(&self, case: &Case) -> Vec<Case> {
        let mut out = Vec::new();
        for i in 0..case.hist.len() {
            let mut c = case.clone();
            c.hist.remove(i);
            c.faults.retain(|f| f.0 != i);
            for f in c.faults.iter_mut() {
                if f.0 > i {
                    f.0 -= 1;
                }
            }
            c.sink_faults.retain(|f| f.0 != i);
            for f in c.sink_faults.iter_mut() {
                if f.0 > i {
                    f.0 -= 1;
                }
            }
            out.push(c);
        }
        for i in 0..case.faults.len() {
            let mut c = case.clone();
            c.faults.remove(i);
            out.push(c);
        }
        for i in 0..case.sink_faults.len() {
            let mut c = case.clone();
            c.sink_faults.remove(i);
            out.push(c);
        }
        for i in 0..case.damage.len() {
            let mut c = case.clone();
            c.damage.remove(i);
            out.push(c);
        }
        if case.damage.is_empty() {
            for p in shrink_program(&case.prog) {
                out.push(Case { prog: p, ..case.clone() });
            }
        }
        if case.rchunk != Chunk::Full {
            out.push(Case { rchunk: Chunk::Full, ..case.clone() });
        }
        for i in 0..case.hist.len() {
            if let ROp::Blob { which, sink } = &case.hist[i] {
                if *sink != Chunk::Full {
                    let mut c = case.clone();
                    c.hist[i] = ROp::Blob { which: *which, sink: Chunk::Full };
                    out.push(c);
                }
            }
        }
        out
    }
}
