//! C01 – raw point data survives write -> read exactly.

use super::writer_rt::*;
use crate::gen::*;
use crate::program::*;
use crate::rng::Rng;
use crate::runner::*;

pub struct C01;

/// A cloud that fills several real (64 KiB) data packets with records of different odd bit
/// widths: every stream carries another partial byte from packet to packet, so packet lengths
/// vary in their residue modulo 4 right below the 64 KiB limit (library packet capacity only).
pub fn mixed_width_cloud(g: &mut Rng) -> Call {
    use crate::model::*;
    let k = 3 + g.usize_below(3);
    let mut proto: Vec<Rec> = Vec::new();
    for i in 0..k {
        let bits = *g.pick(&[1u32, 2, 3, 5, 7, 9, 11, 13, 16, 19, 24]);
        let min = *g.pick(&[0i64, -1, -100, 1000]);
        let max = min + ((1i64 << bits) - 1);
        let name = if i < 3 { Name::Std(i as u8) } else { Name::Std([std_name::INT, std_name::ROW, std_name::COL][i - 3]) };
        proto.push(Rec { name, dt: DType::Int { min, max } });
    }
    let n = *g.pick(&[40_000usize, 66_000, 100_000, 140_000]);
    Call::Pc { guid: gen_guid(g), proto, steps: vec![PcStep::Points { n, seed: g.next_u64() }], end: SubEnd::Finalize }
}

pub fn gen_case(rc: &RunCtx, blob_heavy: bool, nasty: bool) -> WriterCase {
    let mut g = Rng::stream(rc.run_seed, "cfg");
    // every 64th run uses the library's own packet capacity with multi-packet clouds
    let knob_off = rc.index % 64 == 63;
    let knob = if knob_off { None } else { Some(*g.pick(&KNOBS)) };
    let placement = if g.chance(1, 2) { Some(((rc.index % 255) * 4) as u32 + if blob_heavy { (rc.index % 4) as u32 } else { 0 }) } else { None };
    let cfg = ProgCfg {
        max_items: if knob_off { 2 } else { 5 },
        knob,
        placement_residue: placement,
        nasty_strings: nasty,
        ext: true,
        // abandoned point cloud / image writers must leave later content untouched
        allow_abandon: true,
        max_points_knob_off: 25_000,
        custom_xml: false,
        small: false,
        big_permille: 15,
    };
    let mut prog = gen_program(rc.run_seed, &cfg);
    if rc.index % 512 == 255 {
        // sub-byte records and far more than 65 536 points with the library's own packet capacity:
        // one data packet then carries more than 65 536 values per stream
        use crate::model::*;
        let w = *g.pick(&[1i64, 3, 7]);
        let proto: Vec<Rec> = [0u8, 1, 2].iter().map(|i| Rec { name: Name::Std(*i), dt: DType::Int { min: -1, max: -1 + w } }).collect();
        let n = *g.pick(&[100_000usize, 140_000, 200_000]);
        prog.knob = None;
        prog.calls.push(Call::Pc { guid: gen_guid(&mut g), proto, steps: vec![PcStep::Points { n, seed: g.next_u64() }], end: SubEnd::Finalize });
    }
    if rc.index % 64 == 31 {
        prog.knob = None;
        prog.calls.push(mixed_width_cloud(&mut g));
    }
    if rc.index % 512 == 383 {
        // hundreds of constant (zero-width) extension records next to sized ones, enough points to
        // fill a packet at the library's own capacity
        use crate::model::*;
        let ns = "ext".to_string();
        if !prog.calls.iter().any(|c| matches!(c, Call::RegisterExt { ns: n, .. } if *n == ns)) {
            prog.calls.insert(0, Call::RegisterExt { ns: ns.clone(), url: "http://example.org/many-constants".into() });
        }
        let mut proto: Vec<Rec> = [0u8, 1, 2].iter().map(|i| Rec { name: Name::Std(*i), dt: DType::Double { min: None, max: None } }).collect();
        let k = *g.pick(&[120usize, 260, 300, 600]);
        for i in 0..k {
            proto.push(Rec { name: Name::Ext { ns: ns.clone(), name: format!("const{i}") }, dt: DType::Int { min: 42, max: 42 } });
        }
        prog.knob = None;
        prog.calls.push(Call::Pc { guid: gen_guid(&mut g), proto, steps: vec![PcStep::Points { n: *g.pick(&[2_700usize, 2_800, 6_000]), seed: g.next_u64() }], end: SubEnd::Finalize });
    }
    let (wchunk, rchunk, sink) = draw_chunks(rc.run_seed);
    WriterCase { prog, wchunk, rchunk, sink, legacy_blob_headers: false }
}

pub fn run_points(case: &WriterCase, st: &mut RunStats, check_blobs: bool, check_points: bool) -> Outcome<WriterCase> {
    st.evaluations = 1;
    let w = write_case(case);
    if let Some((class, detail)) = call_contradiction(&w.exec) {
        return Outcome::fail(class, detail);
    }
    if !w.exec.completed {
        return Outcome::fail("not-finalized", "top-level finalize did not succeed".to_string());
    }
    if w.exec.dirty_after_finalize || w.disk.dirty() {
        return Outcome::fail("not-flushed", "finalize returned Ok but the device has unflushed writes".to_string());
    }
    let legacy_image;
    let image_to_read: &[u8] = if case.legacy_blob_headers {
        match to_legacy_blob_headers(&w.image, &w.exec.blob_descs) {
            Some(i) => {
                st.probe("legacy_blob_section_length_convention", true);
                legacy_image = i;
                &legacy_image
            }
            None => &w.image,
        }
    } else {
        &w.image
    };
    let rb = match read_back(image_to_read, &w.ctx, &case.rchunk, &case.sink, &w.exec.blob_descs) {
        Ok(rb) => rb,
        Err(e) => return Outcome::fail("reopen-failed", format!("finalized file does not open: {e}")),
    };
    if check_points {
        if let Some((class, detail)) = compare_points(&rb.file, &w.exec.expected.file) {
            return Outcome::fail(class, detail);
        }
    }
    if check_blobs {
        if let Some((class, detail)) = compare_blobs(&rb, &w.exec.expected) {
            return Outcome::fail(class, detail);
        }
    }
    note_placement(st, &rb);
    let npts: u64 = w.exec.expected.file.pcs.iter().map(|p| p.records).sum();
    st.count("points_written", npts);
    st.count("pointclouds", w.exec.expected.file.pcs.len() as u64);
    st.count("blobs_and_image_payloads", rb.blob_offsets.len() as u64);
    for pc in &w.exec.expected.file.pcs {
        for r in &pc.proto {
            st.set_add("record_bit_widths", r.dt.bits() as u64);
        }
        st.probe("zero_width_record_next_to_sized", pc.proto.iter().any(|r| r.dt.bits() == 0) && pc.records > 0);
        st.probe("64_bit_wide_integer_record", pc.proto.iter().any(|r| r.dt.bits() == 64 && r.dt.kind() >= 2) && pc.records > 0);
        if let Some(k) = case.prog.knob {
            st.probe("multi_packet_cloud_knob_on", pc.records as usize > k);
            // a partial byte is carried across packets when a record's width is not a multiple of 8
            st.probe(
                "partial_byte_carried_across_packet",
                pc.records as usize > k && pc.proto.iter().any(|r| (r.dt.bits() as usize * k) % 8 != 0),
            );
        } else {
            st.probe("multi_packet_cloud_knob_off", pc.records as usize > packet_capacity(&pc.proto));
        }
    }
    st.probe(
        "more_than_65536_values_of_a_stream_in_one_packet",
        case.prog.knob.is_none() && w.exec.expected.file.pcs.iter().any(|p| p.records > 65_536 && packet_capacity(&p.proto) > 65_536),
    );
    st.probe("cloud_with_more_than_65535_points", w.exec.expected.file.pcs.iter().any(|p| p.records > 65_535));
    st.probe("payload_longer_than_65535_bytes", w.exec.expected.blobs.iter().any(|b| b.len() > 65_535));
    st.probe("short_device_transfers", w.disk.short_transfers() > 0);
    if let Some(at) = case.prog.calls.iter().position(|c| matches!(c, Call::Blob { fail_after: Some(_), .. })) {
        st.probe("blob_added_after_failed_add_blob", case.prog.calls[at + 1..].iter().any(|c| matches!(c, Call::Blob { fail_after: None, .. } | Call::Img { .. })));
        if let Some(Call::Blob { fail_after: Some(k), .. }) = case.prog.calls.get(at) {
            st.set_add("failed_source_bytes_mod_4", (*k % 4) as u64);
        }
    }
    st.absorb_ctx(&w.ctx);
    let mut dg = crate::rng::Digest::new();
    dg.bytes(&w.image);
    st.digest = dg.finish();
    if w.image.len() > 1024 && (npts > 0 || !rb.blob_offsets.is_empty()) {
        st.fingerprint(shape_fingerprint(case, Some(&rb)));
    }
    if st.sample.is_none() {
        st.sample = Some(sample_of(case, &w.exec, w.image.len()));
    }
    Outcome::Held
}

impl Prop for C01 {
    type Case = WriterCase;
    fn id(&self) -> &'static str {
        "C01"
    }
    fn meta(&self) -> Meta {
        Meta {
            level: "exploration",
            rule: "seeded writer programs (0-5 items: point clouds with rule-conforming prototypes over single/double/integer/scaled types of width 0..64 bits incl. min=max and the full i64 range, extension attributes, blobs, images; in 1.5 % of the runs one cloud of 3 000 - 70 000 points or a blob of 64 - 200 KiB; a filler blob sweeps the section start over the residues modulo 1020) executed on E57Writer<SimDisk> under a seeded short-write schedule, packet capacity capped by the knob (1,2,3,7,8,9,50 points) in 63 of 64 runs and left at the library's ~64 KiB in the rest (multi-packet clouds up to 25k points); image reopened with E57Reader<SimDisk> under another short-read schedule; every cloud iterated raw. Oracle: scene model (count = records = points added, order, bit-identical values, identical prototype). Distinct = hash(call kinds, prototype types and widths, point-count class, blob length residues, section start offsets in page, knob, chunk kinds); non-trivial = more than one page and at least one point or payload".into(),
            assumptions: vec![
                "prototypes follow the writer's documented rules and have at least one record of non-zero width".into(),
                "metadata strings avoid nothing; numbers in metadata are finite (metadata itself is C04, n/a)".into(),
                "device is fault-free apart from short transfers".into(),
            ],
            real: vec!["e57 crate: E57Writer, PointCloudWriter, ImageWriter, Blob, paged writer/reader, E57Reader, raw iterator".into(), "roxmltree".into()],
            stub: vec!["SimDisk device".into(), "SimPipe blob sources/sinks".into(), "scene model".into()],
            required_probes: vec![
                "cv_header_straddles_page".into(),
                "cv_data_offset_in_next_page".into(),
                "zero_width_record_next_to_sized".into(),
                "64_bit_wide_integer_record".into(),
                "multi_packet_cloud_knob_on".into(),
                "multi_packet_cloud_knob_off".into(),
                "partial_byte_carried_across_packet".into(),
                "short_device_transfers".into(),
                "more_than_65536_values_of_a_stream_in_one_packet".into(),
            ],
        }
    }
    fn plan(&self, tier: Tier) -> Plan {
        match tier {
            Tier::Quick => Plan { runs: 12288, time_box_s: None, isolation: Isolation::Threads },
            Tier::Thorough => Plan { runs: 4_000_000, time_box_s: Some(480), isolation: Isolation::Threads },
        }
    }
    fn generate(&self, rc: &RunCtx) -> WriterCase {
        gen_case(rc, false, false)
    }
    fn execute(&self, case: &WriterCase, st: &mut RunStats) -> Outcome<WriterCase> {
        run_points(case, st, false, true)
    }
    fn shrink(&self, case: &WriterCase) -> Vec<WriterCase> {
        shrink_writer_case(case)
    }
}
