pub mod c11;
