pub mod c01;
pub mod c02;
pub mod c06;
pub mod c11;
pub mod c15;
pub mod c16;
pub mod c17;
pub mod writer_rt;
