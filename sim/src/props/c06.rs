//! C06 – blobs and image payloads round-trip byte-exactly.

use super::c01::{gen_case, run_points};
use super::writer_rt::*;
use crate::runner::*;

pub struct C06;

impl Prop for C06 {
    type Case = WriterCase;
    fn id(&self) -> &'static str {
        "C06"
    }
    fn meta(&self) -> Meta {
        Meta {
            level: "exploration",
            rule: "same program space as C01 with the filler blob length swept through every residue modulo 1020 and modulo 4 (run index), blob/image/mask lengths drawn around 0, page and 8 KiB copy-buffer boundaries; sources are SimPipe readers with seeded short reads, read-back goes through E57Reader::blob into SimPipe sinks with seeded short writes; every eighth run first rewrites all blob section headers to the convention older versions of this crate wrote (section length = data length, accepted by the reader on purpose) and re-seals the pages; every fourth run contains one add_blob call whose source reports an error after k bytes (k over all residues modulo 4, including 0 and the full length): that call must return an error, the program goes on with the same writer, and everything added afterwards is judged as usual. Oracle: returned count = descriptor length = bytes written, bytes identical, each image's blob and mask descriptors yield that image's own (unique) payload. Distinct = same fingerprint as C01; non-trivial = more than one page and at least one payload".into(),
            assumptions: vec!["the device is fault-free apart from short transfers; the only fault is the error of one blob source".into()],
            real: vec!["e57 crate: E57Writer::add_blob, ImageWriter, Blob::write/read, paged writer/reader, E57Reader".into(), "roxmltree".into(), "std::io::copy".into()],
            stub: vec!["SimDisk device".into(), "SimPipe sources and sinks".into(), "scene model".into()],
            required_probes: vec!["blob_header_straddles_page".into(), "short_device_transfers".into(), "legacy_blob_section_length_convention".into(), "blob_added_after_failed_add_blob".into()],
        }
    }
    fn plan(&self, tier: Tier) -> Plan {
        match tier {
            Tier::Quick => Plan { runs: 12288, time_box_s: None, isolation: Isolation::Threads },
            Tier::Thorough => Plan { runs: 4_000_000, time_box_s: Some(480), isolation: Isolation::Threads },
        }
    }
    fn generate(&self, rc: &RunCtx) -> WriterCase {
        let mut c = gen_case(rc, true, false);
        // every eighth run reads the blobs back from a file in the section-length convention of
        // older versions of this crate
        c.legacy_blob_headers = rc.index % 8 == 5;
        // every fourth run: one add_blob call whose source reports an error after some bytes (all
        // residues modulo 4); the call must fail and everything added afterwards must read back
        if rc.index % 4 == 1 {
            let mut g = crate::rng::Rng::stream(rc.run_seed, "src-fault");
            let blobs: Vec<usize> = c.prog.calls.iter().enumerate().filter(|(_, x)| matches!(x, crate::program::Call::Blob { .. })).map(|(i, _)| i).collect();
            if !blobs.is_empty() {
                let at = *g.pick(&blobs);
                if let crate::program::Call::Blob { data, fail_after, .. } = &mut c.prog.calls[at] {
                    let k = if data.len == 0 || g.chance(1, 4) { data.len } else { g.usize_below(data.len.min(5000) + 1).min(data.len) };
                    *fail_after = Some(k);
                }
            } else {
                use crate::model::Bytes;
                let len = g.usize_below(3000);
                let k = g.usize_below(len + 1);
                let at = g.usize_below(c.prog.calls.len() + 1);
                c.prog.calls.insert(at, crate::program::Call::Blob { data: Bytes::draw(&mut g, len), pipe: crate::simdisk::Chunk::Full, fail_after: Some(k) });
            }
        }
        c
    }
    fn execute(&self, case: &WriterCase, st: &mut RunStats) -> Outcome<WriterCase> {
        // points are compared as well: what a failed add_blob leaves behind must not disturb the
        // point clouds added afterwards
        run_points(case, st, true, true)
    }
    fn shrink(&self, case: &WriterCase) -> Vec<WriterCase> {
        shrink_writer_case(case)
    }
}
