//! C06 – blobs and image payloads round-trip byte-exactly.

use super::c01::{gen_case, run_points};
use super::writer_rt::*;
use crate::runner::*;

pub struct C06;

impl Prop for C06 {
    type Case = WriterCase;
    fn id(&self) -> &'static str {
        "C06"
    }
    fn meta(&self) -> Meta {
        Meta {
            level: "exploration",
            rule: "same program space as C01 with the filler blob length swept through every residue modulo 1020 and modulo 4 (run index), blob/image/mask lengths drawn around 0, page and 8 KiB copy-buffer boundaries; sources are SimPipe readers with seeded short reads, read-back goes through E57Reader::blob into SimPipe sinks with seeded short writes; every eighth run first rewrites all blob section headers to the convention older versions of this crate wrote (section length = data length, accepted by the reader on purpose) and re-seals the pages. Oracle: returned count = descriptor length = bytes written, bytes identical, each image's blob and mask descriptors yield that image's own (unique) payload. Distinct = same fingerprint as C01; non-trivial = more than one page and at least one payload".into(),
            assumptions: vec!["device and pipes are fault-free apart from short transfers".into()],
            real: vec!["e57 crate: E57Writer::add_blob, ImageWriter, Blob::write/read, paged writer/reader, E57Reader".into(), "roxmltree".into(), "std::io::copy".into()],
            stub: vec!["SimDisk device".into(), "SimPipe sources and sinks".into(), "scene model".into()],
            required_probes: vec!["blob_header_straddles_page".into(), "short_device_transfers".into(), "legacy_blob_section_length_convention".into()],
        }
    }
    fn plan(&self, tier: Tier) -> Plan {
        match tier {
            Tier::Quick => Plan { runs: 12288, time_box_s: None, isolation: Isolation::Threads },
            Tier::Thorough => Plan { runs: 4_000_000, time_box_s: Some(480), isolation: Isolation::Threads },
        }
    }
    fn generate(&self, rc: &RunCtx) -> WriterCase {
        let mut c = gen_case(rc, true, false);
        // every eighth run reads the blobs back from a file in the section-length convention of
        // older versions of this crate
        c.legacy_blob_headers = rc.index % 8 == 5;
        c
    }
    fn execute(&self, case: &WriterCase, st: &mut RunStats) -> Outcome<WriterCase> {
        run_points(case, st, true, false)
    }
    fn shrink(&self, case: &WriterCase) -> Vec<WriterCase> {
        shrink_writer_case(case)
    }
}
