//! C20 – bundled tools preserve data end to end (process level; weakest fit of the technique).
//!
//! Nodes = tool processes built from the workspace, disk = a private directory in /dev/shm,
//! fault = bit rot / truncation applied to a file between two pipeline stages.

use super::c05::{build_image, Source};
use super::c03::producer_cfg;
use crate::gen::*;
use crate::program::*;
use crate::refcodec::encode::Layout;
use crate::refcodec::page;
use crate::rng::{Digest, Rng};
use crate::runner::*;
use crate::simdisk::Patch;
use e57::{E57Reader, Projection, RecordValue};
use serde::{Deserialize, Serialize};
use serde_json::json;
use std::path::{Path, PathBuf};
use std::process::{Command, Stdio};

#[derive(Clone, Debug, Serialize, Deserialize)]
pub enum Work {
    /// lines of an XYZ text file
    Xyz { lines: Vec<String> },
    /// an E57 file from the C01 / C03 generators
    E57 { prog: Program, source: Source },
    /// an XYZ text file beyond the block sizes of buffered readers (> 1 MiB): one skipped line of
    /// `lead` characters, then `n` lines of 44 characters, LF line ends; `lead` shifts every line
    /// end relative to the 64 KiB / 1 MiB block borders
    XyzBig { lead: usize, n: usize, seed: u64 },
}

fn big_xyz_lines(lead: usize, n: usize, seed: u64) -> Vec<String> {
    let mut r = Rng::new(seed);
    let mut lines = Vec::with_capacity(n + 1);
    lines.push("7".repeat(lead));
    for _ in 0..n {
        let c = |r: &mut Rng| format!("{}.{:06}", 100 + r.below(900), r.below(1_000_000));
        let k = |r: &mut Rng| 100 + r.below(156);
        lines.push(format!("{} {} {} {} {} {}", c(&mut r), c(&mut r), c(&mut r), k(&mut r), k(&mut r), k(&mut r)));
    }
    lines
}

#[derive(Clone, Debug, Serialize, Deserialize)]
pub struct Case {
    pub work: Work,
    /// stored-byte faults applied to the E57 file between two pipeline stages
    pub damage: Vec<Patch>,
}

pub struct C20;

fn tools_dir() -> PathBuf {
    std::env::var("E57SIM_TOOLS").map(PathBuf::from).unwrap_or_else(|_| PathBuf::from("/verif/target-tools/release"))
}

struct Scratch(PathBuf);

impl Scratch {
    fn new(tag: u64) -> Self {
        // unique per use: two runs with equal content must not share a directory
        static NEXT: std::sync::atomic::AtomicU64 = std::sync::atomic::AtomicU64::new(0);
        let n = NEXT.fetch_add(1, std::sync::atomic::Ordering::SeqCst);
        let p = PathBuf::from(format!("/dev/shm/e57sim-{}-{n}-{:08x}", std::process::id(), tag as u32));
        let _ = std::fs::remove_dir_all(&p);
        std::fs::create_dir_all(&p).expect("scratch directory in /dev/shm");
        Scratch(p)
    }
}

impl Drop for Scratch {
    fn drop(&mut self) {
        let _ = std::fs::remove_dir_all(&self.0);
    }
}

struct ToolRun {
    code: Option<i32>,
    stdout: Vec<u8>,
}

fn run_tool(name: &str, arg: &Path) -> ToolRun {
    let exe = tools_dir().join(name);
    let out = Command::new(&exe).arg(arg).stdin(Stdio::null()).stderr(Stdio::null()).output();
    match out {
        Ok(o) => ToolRun { code: o.status.code(), stdout: o.stdout },
        Err(e) => panic!("cannot run tool {}: {e}", exe.display()),
    }
}

fn f32_text(r: &mut Rng, v: f32) -> String {
    match r.below(3) {
        0 => format!("{v}"),
        1 => format!("{v:e}"),
        _ => format!("{v:?}"),
    }
}

fn gen_coord(r: &mut Rng) -> f32 {
    match r.below(10) {
        0 => 0.0,
        1 => -0.0,
        2 => f32::MAX,
        3 => f32::MIN,
        4 => f32::MIN_POSITIVE,
        5 => f32::from_bits(r.range(1, 0x007F_FFFF) as u32), // subnormal
        6 => -f32::from_bits(r.range(1, 0x007F_FFFF) as u32),
        7 => (r.irange(-1_000_000, 1_000_000) as f32) / 1000.0,
        _ => {
            let v = f32::from_bits(r.next_u64() as u32);
            if v.is_finite() {
                v
            } else {
                1.5
            }
        }
    }
}

pub fn gen_xyz(r: &mut Rng) -> Vec<String> {
    let n = match r.below(5) {
        0 => 0,
        1 => 1,
        2 => 2 + r.usize_below(10),
        _ => r.usize_below(400),
    };
    let mut lines = Vec::new();
    // colours drawn from {0, 1} only (what a file of normalised colours looks like), and a first
    // line that is a single small integer (what a point count looks like): both are plain XYZ
    let binary_colours = r.chance(1, 8);
    if r.chance(1, 16) && n > 3 {
        lines.push((1 + r.below(3)).to_string());
    }
    for _ in 0..n {
        match r.below(12) {
            0 => lines.push(String::new()),
            1 => {
                // short line: fewer than six columns, must be skipped
                let k = 1 + r.usize_below(5);
                lines.push(
                    (0..k)
                        .map(|_| {
                            let v = gen_coord(r);
                            f32_text(r, v)
                        })
                        .collect::<Vec<_>>()
                        .join(" "),
                );
            }
            _ => {
                let mut parts: Vec<String> = (0..3)
                    .map(|_| {
                        let v = gen_coord(r);
                        f32_text(r, v)
                    })
                    .collect();
                for _ in 0..3 {
                    if binary_colours {
                        parts.push(r.below(2).to_string());
                        continue;
                    }
                    parts.push(match r.below(6) {
                        0 => "0".into(),
                        1 => "255".into(),
                        2 => "1".into(),
                        3 => "254".into(),
                        _ => r.below(256).to_string(),
                    });
                }
                // extra columns are ignored; now and then so many of them that the line is longer
                // than the buffers a line reader may use (4 KiB, 8 KiB, 64 KiB)
                let extra = if r.chance(1, 40) { *r.pick(&[1030u64, 2100, 4200, 33_000]) } else { r.below(3) };
                for _ in 0..extra {
                    parts.push(r.pick(&["7", "abc", "1.5", "-"]).to_string());
                }
                lines.push(parts.join(" "));
            }
        }
    }
    lines
}

/// What the XYZ round trip must return: per kept line (x, y, z as f32 bits, r, g, b).
fn xyz_expected(lines: &[String]) -> Vec<([u32; 3], [u8; 3])> {
    let mut out = Vec::new();
    for l in lines {
        let parts: Vec<&str> = l.trim().split(' ').collect();
        if parts.len() >= 6 {
            let f = |s: &str| s.parse::<f32>().map(|v| v.to_bits());
            let c = |s: &str| s.parse::<u8>();
            if let (Ok(x), Ok(y), Ok(z), Ok(r), Ok(g), Ok(b)) = (f(parts[0]), f(parts[1]), f(parts[2]), c(parts[3]), c(parts[4]), c(parts[5])) {
                out.push(([x, y, z], [r, g, b]));
            }
        }
    }
    out
}

fn run_xyz(case: &Case, lines: &[String], force_lf: bool, st: &mut RunStats) -> Outcome<Case> {
    let mut dg = Digest::new();
    let mut tag = Digest::new();
    for l in lines {
        tag.str(l);
    }
    let scratch = Scratch::new(tag.finish());
    let input = scratch.0.join("in.xyz");
    // line ends derived from the content: LF (mostly), CRLF, or no newline behind the last line
    let style = if force_lf { 0 } else { tag.finish() % 8 };
    st.probe("xyz_file_larger_than_1_mib", lines.iter().map(|l| l.len() + 1).sum::<usize>() > 1 << 20);
    let eol = if style == 1 { "\r\n" } else { "\n" };
    let mut text = lines.join(eol);
    if !lines.is_empty() && style != 2 {
        text.push_str(eol);
    }
    st.probe("xyz_last_line_without_newline", style == 2 && !lines.is_empty());
    st.probe("xyz_crlf_line_ends", style == 1 && !lines.is_empty());
    st.probe("xyz_line_longer_than_4096_bytes", lines.iter().any(|l| l.len() > 4096));
    std::fs::write(&input, &text).expect("write xyz");
    let t1 = run_tool("e57-from-xyz", &input);
    if t1.code != Some(0) {
        return Outcome::fail("from-xyz-failed", format!("e57-from-xyz exited with {:?} on a well-formed XYZ file of {} lines", t1.code, lines.len()));
    }
    let e57_path = scratch.0.join("in.xyz.e57");
    let mut image = match std::fs::read(&e57_path) {
        Ok(b) => b,
        Err(e) => return Outcome::fail("from-xyz-no-output", format!("e57-from-xyz wrote no output: {e}")),
    };
    let damaged = !case.damage.is_empty();
    if damaged {
        for p in &case.damage {
            p.apply(&mut image);
        }
        std::fs::write(&e57_path, &image).expect("write damaged");
    }
    let crc_ok = image.len() % 1024 == 0 && !image.is_empty() && page::bad_pages(&image).is_empty();
    let t0 = run_tool("e57-check-crc", &e57_path);
    if (t0.code == Some(0)) != crc_ok {
        return Outcome::fail("check-crc-verdict", format!("e57-check-crc exited with {:?}, independent CRC check says valid={crc_ok}", t0.code));
    }
    let t2 = run_tool("e57-to-xyz", &e57_path);
    let want = xyz_expected(lines);
    if t2.code != Some(0) {
        if damaged && !crc_ok {
            st.probe("tool_rejected_damaged_file", true);
            return Outcome::Held;
        }
        return Outcome::fail("to-xyz-failed", format!("e57-to-xyz exited with {:?} on an intact file", t2.code));
    }
    let out = std::fs::read_to_string(scratch.0.join("in.xyz.e57.xyz")).unwrap_or_default();
    let got: Vec<&str> = out.lines().collect();
    if got.len() != want.len() {
        return Outcome::fail("xyz-line-count", format!("round trip returns {} lines for {} kept input lines", got.len(), want.len()));
    }
    for (i, (g, w)) in got.iter().zip(want.iter()).enumerate() {
        let parts: Vec<&str> = g.split(' ').collect();
        if parts.len() != 6 {
            return Outcome::fail("xyz-columns", format!("output line {i} has {} columns: '{g}'", parts.len()));
        }
        for k in 0..3 {
            let v: f64 = match parts[k].parse() {
                Ok(v) => v,
                Err(_) => return Outcome::fail("xyz-parse", format!("output line {i}: '{}' is not a number", parts[k])),
            };
            if (v as f32).to_bits() != w.0[k] && !((v as f32) == 0.0 && f32::from_bits(w.0[k]) == 0.0) {
                return Outcome::fail("xyz-coordinate", format!("line {i} coordinate {k}: {} came back as {v}", f32::from_bits(w.0[k])));
            }
        }
        for k in 0..3 {
            let v: i64 = parts[3 + k].parse().unwrap_or(-1);
            if v != w.1[k] as i64 {
                return Outcome::fail("xyz-colour", format!("line {i} colour {k}: {} came back as {}", w.1[k], parts[3 + k]));
            }
        }
        dg.str(g);
    }
    st.count("xyz_points", want.len() as u64);
    st.probe("xyz_short_or_blank_line_skipped", lines.len() > want.len());
    st.digest = dg.finish();
    if !want.is_empty() {
        let mut fp = Digest::new();
        fp.u64(1).u64(want.len().min(64) as u64).u64((lines.len() - want.len()).min(8) as u64).u64(damaged as u64);
        for (c, _) in want.iter().take(4) {
            fp.u64(c[0] as u64);
        }
        st.fingerprint(fp.finish());
    }
    if st.sample.is_none() && !lines.is_empty() {
        st.sample = Some(json!({"pipeline": "xyz -> e57-from-xyz -> [fault] -> e57-check-crc, e57-to-xyz", "lines": lines.iter().take(5).collect::<Vec<_>>(), "n_lines": lines.len(), "damage": format!("{:?}", case.damage)}));
    }
    Outcome::Held
}

fn csv_of(r: &mut E57Reader<std::io::BufReader<std::fs::File>>, pc: &e57::PointCloud) -> Result<String, String> {
    let headers: Vec<String> = pc.prototype.iter().map(|r| format!("{:?} {:?}", r.name, r.data_type)).collect();
    let mut s = headers.join(";");
    s.push('\n');
    let it = r.pointcloud_raw(pc).map_err(|e| e.to_string())?;
    for p in it {
        let p = p.map_err(|e| e.to_string())?;
        let vals: Vec<String> = p
            .iter()
            .map(|v| match v {
                RecordValue::Single(x) => x.to_string(),
                RecordValue::Double(x) => x.to_string(),
                RecordValue::ScaledInteger(x) => x.to_string(),
                RecordValue::Integer(x) => x.to_string(),
            })
            .collect();
        s.push_str(&vals.join(";"));
        s.push('\n');
    }
    Ok(s)
}

fn run_e57(case: &Case, prog: &Program, source: &Source, st: &mut RunStats) -> Outcome<Case> {
    let (mut image, _) = match build_image(prog, source, None) {
        Ok(x) => x,
        Err((c, d)) => return Outcome::fail(c, d),
    };
    for p in &case.damage {
        p.apply(&mut image);
    }
    let damaged = !case.damage.is_empty();
    let mut tag = Digest::new();
    tag.bytes(&image);
    let scratch = Scratch::new(tag.finish());
    let path = scratch.0.join("f.e57");
    std::fs::write(&path, &image).expect("write e57");
    let crc_ok = image.len() % 1024 == 0 && !image.is_empty() && page::bad_pages(&image).is_empty();
    // e57-check-crc
    let t = run_tool("e57-check-crc", &path);
    if (t.code == Some(0)) != crc_ok {
        return Outcome::fail("check-crc-verdict", format!("e57-check-crc exited with {:?}, independent CRC check says valid={crc_ok}", t.code));
    }
    // e57-extract-xml
    let lib_raw = std::fs::File::open(&path).map_err(|e| e.to_string()).and_then(|f| E57Reader::raw_xml(std::io::BufReader::new(f)).map_err(|e| e.to_string()));
    let t = run_tool("e57-extract-xml", &path);
    match (&lib_raw, t.code) {
        (Ok(x), Some(0)) => {
            if &t.stdout != x {
                return Outcome::fail("extract-xml-differs", format!("e57-extract-xml printed {} bytes, raw_xml returns {}", t.stdout.len(), x.len()));
            }
        }
        (Err(_), Some(0)) => return Outcome::fail("extract-xml-ok-on-error", "e57-extract-xml exited 0 although raw_xml fails".to_string()),
        (Ok(_), c) => return Outcome::fail("extract-xml-failed", format!("e57-extract-xml exited with {c:?} although raw_xml succeeds")),
        (Err(_), _) => {
            st.probe("tool_rejected_damaged_file", true);
        }
    }
    // e57-unpack
    let t = run_tool("e57-unpack", &path);
    let lib = E57Reader::from_file(&path);
    match (lib, t.code) {
        (Err(_), Some(0)) => return Outcome::fail("unpack-ok-on-error", "e57-unpack exited 0 although the library cannot open the file".to_string()),
        (Err(_), _) => {
            st.probe("tool_rejected_damaged_file", true);
        }
        (Ok(mut r), code) => {
            let dir = scratch.0.join("f.e57_unpacked");
            if code == Some(0) {
                let xml = std::fs::read_to_string(dir.join("metadata.xml")).unwrap_or_default();
                if xml != r.xml() {
                    return Outcome::fail("unpack-xml-differs", "metadata.xml differs from E57Reader::xml()".to_string());
                }
                for (i, pc) in r.pointclouds().iter().enumerate() {
                    let want = match csv_of(&mut r, pc) {
                        Ok(s) => s,
                        Err(e) => return Outcome::fail("unpack-ok-on-error", format!("e57-unpack exited 0 although reading point cloud {i} fails: {e}")),
                    };
                    let got = std::fs::read_to_string(dir.join(format!("pc_{i}.csv"))).unwrap_or_default();
                    if got != want {
                        let line = got.lines().zip(want.lines()).position(|(a, b)| a != b);
                        return Outcome::fail("unpack-csv-differs", format!("pc_{i}.csv differs from the raw values the library returns (first differing line {line:?}, {} vs {} bytes)", got.len(), want.len()));
                    }
                    st.count("csv_points", pc.records);
                }
                for (i, img) in r.images().iter().enumerate() {
                    let mut files: Vec<(String, e57::Blob)> = Vec::new();
                    if let Some(v) = &img.visual_reference {
                        let ext = format!("{:?}", v.blob.format).to_lowercase();
                        files.push((format!("image_{i}_preview.{ext}"), v.blob.data.clone()));
                        if let Some(m) = &v.mask {
                            files.push((format!("image_{i}_preview_mask.png"), m.clone()));
                        }
                    }
                    if let Some(p) = &img.projection {
                        let (b, m, name) = match p {
                            Projection::Pinhole(x) => (&x.blob, &x.mask, "pinhole"),
                            Projection::Spherical(x) => (&x.blob, &x.mask, "spherical"),
                            Projection::Cylindrical(x) => (&x.blob, &x.mask, "cylindrical"),
                        };
                        let ext = format!("{:?}", b.format).to_lowercase();
                        files.push((format!("image_{i}_{name}.{ext}"), b.data.clone()));
                        if let Some(m) = m {
                            files.push((format!("image_{i}_{name}_mask.png"), m.clone()));
                        }
                    }
                    for (name, blob) in files {
                        let mut want = Vec::new();
                        if let Err(e) = r.blob(&blob, &mut want) {
                            return Outcome::fail("unpack-ok-on-error", format!("e57-unpack exited 0 although blob {name} cannot be read: {e}"));
                        }
                        let got = std::fs::read(dir.join(&name)).unwrap_or_default();
                        if got != want {
                            return Outcome::fail("unpack-blob-differs", format!("{name}: {} bytes on disk, library returns {}", got.len(), want.len()));
                        }
                        st.count("unpacked_blobs", 1);
                    }
                }
            } else {
                // the tool failed: legitimate only if some library read fails too
                let mut lib_fails = false;
                for pc in r.pointclouds() {
                    if csv_of(&mut r, &pc).is_err() {
                        lib_fails = true;
                    }
                }
                for img in r.images() {
                    let d = crate::adapter::img_desc_from_e57(&img);
                    for (b, m) in [d.visual_blobs, d.projection_blobs].into_iter().flatten() {
                        let mut sink = Vec::new();
                        if r.blob(&b, &mut sink).is_err() {
                            lib_fails = true;
                        }
                        if let Some(m) = m {
                            if r.blob(&m, &mut sink).is_err() {
                                lib_fails = true;
                            }
                        }
                    }
                }
                if !lib_fails {
                    return Outcome::fail("unpack-failed", format!("e57-unpack exited with {code:?} although every library read succeeds"));
                }
                st.probe("tool_rejected_damaged_file", true);
            }
        }
    }
    let mut dg = Digest::new();
    dg.bytes(&image);
    st.digest = dg.finish();
    let mut fp = Digest::new();
    fp.u64(2).u64(image.len() as u64 / 1024).u64(damaged as u64).u64(crc_ok as u64).u64(matches!(source, Source::Writer) as u64);
    fp.u64(prog.calls.len() as u64);
    st.fingerprint(fp.finish());
    if st.sample.is_none() {
        st.sample = Some(json!({"pipeline": "e57 (generator) -> [fault] -> e57-check-crc, e57-extract-xml, e57-unpack", "file_bytes": image.len(), "damage": format!("{:?}", case.damage), "crc_valid": crc_ok}));
    }
    Outcome::Held
}

impl Prop for C20 {
    type Case = Case;
    fn id(&self) -> &'static str {
        "C20"
    }
    fn meta(&self) -> Meta {
        Meta {
            level: "exploration",
            rule: "process-level pipelines in a private /dev/shm directory with the five tool binaries built from the workspace (no verification cfg). Even indices: seeded XYZ text (0-400 lines; finite f32 coordinates incl. +-0, +-MAX, MIN_POSITIVE, subnormals, random bit patterns, written in three lexical forms; all 8-bit colours biased to 0/1/254/255; extra columns; short and blank lines; LF or CRLF line ends, last line with or without newline) -> e57-from-xyz -> [every fourth run: bit flip or truncation of the E57 file] -> e57-check-crc, e57-to-xyz. Odd indices: E57 file from the C01 writer / C03 producer generators, intact or damaged -> e57-check-crc, e57-extract-xml, e57-unpack. Oracle: kept XYZ lines come back in order with identical f32 coordinates and identical colours; e57-check-crc exits 0 iff refcodec finds every page CRC valid; e57-extract-xml stdout = E57Reader::raw_xml; e57-unpack's metadata.xml, pc_i.csv and image files = xml(), raw values in the same text form, blob bytes the library returns; on damaged input a tool exits non-zero (and then a library read fails too) or emits exactly that. Distinct = hash(pipeline kind, sizes, damage, first values); non-trivial = at least one point or file processed".into(),
            assumptions: vec![
                "XYZ columns are separated by single spaces (the tool's documented input form)".into(),
                "random GUIDs of e57-from-xyz are outside what the property observes".into(),
                "tools run as real processes on the real file system of /dev/shm: only the stored bytes between stages are under the simulator's control (weakest fit of the technique, DESIGN.md §5 C20)".into(),
            ],
            real: vec!["tool binaries e57-from-xyz, e57-to-xyz, e57-check-crc, e57-extract-xml, e57-unpack".into(), "e57 crate via File/BufReader".into()],
            stub: vec!["/dev/shm scratch directory as disk".into(), "stored-byte faults between stages".into(), "refcodec CRC check".into()],
            required_probes: vec!["xyz_short_or_blank_line_skipped".into(), "tool_rejected_damaged_file".into()],
        }
    }
    fn plan(&self, tier: Tier) -> Plan {
        match tier {
            Tier::Quick => Plan { runs: 400, time_box_s: None, isolation: Isolation::Threads },
            Tier::Thorough => Plan { runs: 40_000, time_box_s: Some(420), isolation: Isolation::Threads },
        }
    }
    fn preflight(&self) -> Result<(), String> {
        for t in ["e57-from-xyz", "e57-to-xyz", "e57-check-crc", "e57-extract-xml", "e57-unpack"] {
            if !tools_dir().join(t).exists() {
                return Err(format!("tool binary {} missing (run ./check --build)", tools_dir().join(t).display()));
            }
        }
        crate::refcodec::calibrate(false).map(|_| ())
    }
    fn generate(&self, rc: &RunCtx) -> Case {
        let mut g = Rng::stream(rc.run_seed, "gen");
        let mut f = Rng::stream(rc.run_seed, "fault");
        if rc.index % 8 == 4 {
            // 45 bytes per line: the lead length sweeps the line ends over every position
            // relative to the 1 MiB border (and the many 64 KiB borders) of a block-wise reader
            let lead = ((rc.index / 8) % 45) as usize;
            return Case { work: Work::XyzBig { lead, n: 23_400 + g.usize_below(4000), seed: g.next_u64() }, damage: vec![] };
        }
        if rc.index % 2 == 0 {
            let lines = gen_xyz(&mut g);
            let damage = if rc.index % 8 == 6 {
                match f.below(4) {
                    0 => vec![Patch::Xor { offset: f.below(3000), mask: 1 << f.below(8) }],
                    1 => vec![Patch::Truncate { len: if f.chance(1, 3) { f.below(50) } else { f.below(3000) } }],
                    2 => vec![Patch::Xor { offset: f.below(48), mask: 1 << f.below(8) }],
                    _ => vec![Patch::Xor { offset: 1024 + f.below(1024), mask: 1 << f.below(8) }],
                }
            } else {
                vec![]
            };
            Case { work: Work::Xyz { lines }, damage }
        } else {
            let mut cfg = producer_cfg(&mut g);
            cfg.nasty_strings = g.chance(1, 2);
            let mut prog = gen_program(rc.run_seed, &cfg);
            if rc.index % 16 == 9 {
                // XML beyond 64 KiB made of multi-byte characters: whatever a tool does block-wise
                // (64 KiB is a common block size) meets characters that straddle a block border
                let unit = *g.pick(&["\u{20ac}", "\u{e4}", "\u{1d11e}", "a\u{20ac}"]);
                let n = 70_000 / unit.len() + g.usize_below(2000);
                prog.calls.retain(|c| !matches!(c, Call::CoordMeta(_)));
                prog.calls.insert(0, Call::CoordMeta(Some(unit.repeat(n))));
            }
            let source = if rc.index % 4 == 1 {
                Source::Writer
            } else {
                let mut l = Rng::stream(rc.run_seed, "layout");
                Source::Producer { layout: Layout::draw(&mut l), foreign: g.below(32) as u8 }
            };
            let damage = if rc.index % 3 == 0 {
                let len = build_image(&prog, &source, None).map(|(i, _)| i.len()).unwrap_or(1024);
                match f.below(4) {
                    3 => build_image(&prog, &source, None).map(|(i, _)| super::c07::draw_near_miss_checksum(&mut f, &i)).unwrap_or_default(),
                    0 => super::c07::draw_alteration(&mut f, len),
                    1 => vec![Patch::Truncate { len: if f.chance(1, 3) { f.below(50) } else { f.below(len as u64 + 1) } }],
                    _ => vec![Patch::Extend { bytes: vec![0u8; 1 + f.usize_below(1500)] }],
                }
            } else {
                vec![]
            };
            Case { work: Work::E57 { prog, source }, damage }
        }
    }
    fn execute(&self, case: &Case, st: &mut RunStats) -> Outcome<Case> {
        st.evaluations = 1;
        match &case.work {
            Work::Xyz { lines } => run_xyz(case, lines, false, st),
            Work::XyzBig { lead, n, seed } => run_xyz(case, &big_xyz_lines(*lead, *n, *seed), true, st),
            Work::E57 { prog, source } => run_e57(case, prog, source, st),
        }
    }
    fn shrink(&self, case: &Case) -> Vec<Case> {
        let mut out = Vec::new();
        match &case.work {
            Work::Xyz { lines } => {
                if lines.len() > 1 {
                    out.push(Case { work: Work::Xyz { lines: lines[..lines.len() / 2].to_vec() }, ..case.clone() });
                    out.push(Case { work: Work::Xyz { lines: lines[lines.len() / 2..].to_vec() }, ..case.clone() });
                }
                for i in 0..lines.len().min(40) {
                    let mut l = lines.clone();
                    l.remove(i);
                    out.push(Case { work: Work::Xyz { lines: l }, ..case.clone() });
                }
            }
            Work::XyzBig { lead, n, seed } => {
                // fewer lines behind the block border; the position of the line ends is kept
                for m in [24_000usize, 23_400, n / 2] {
                    if m < *n {
                        out.push(Case { work: Work::XyzBig { lead: *lead, n: m, seed: *seed }, ..case.clone() });
                    }
                }
            }
            Work::E57 { prog, source } => {
                if case.damage.is_empty() {
                    for p in shrink_program(prog) {
                        out.push(Case { work: Work::E57 { prog: p, source: source.clone() }, ..case.clone() });
                    }
                }
            }
        }
        if case.damage.len() > 1 {
            for i in 0..case.damage.len() {
                let mut c = case.clone();
                c.damage.remove(i);
                out.push(c);
            }
        }
        out
    }
}
