//! C19 – copying a file through the library is lossless and writing is deterministic.
//!
//! read -> write -> read -> write -> read pipelines over simulated disks, each stage under its
//! own chunk schedule; every writer stage is executed twice and must give byte-identical images.

use super::c05::{build_image, Source};
use super::c03::producer_cfg;
use super::writer_rt::*;
use crate::adapter::*;
use crate::gen::*;
use crate::model::*;
use crate::program::*;
use crate::refcodec::encode::Layout;
use crate::refcodec;
use crate::rng::{Digest, Rng};
use crate::runner::*;
use crate::simdisk::*;
use e57::E57Reader;
use serde::{Deserialize, Serialize};
use serde_json::json;

#[derive(Clone, Debug, Serialize, Deserialize)]
pub enum Origin {
    Generated { prog: Program, source: Source },
    /// file name under /repo/testdata
    Bundled(String),
}

#[derive(Clone, Debug, Serialize, Deserialize)]
pub struct Case {
    pub origin: Origin,
    /// chunk schedules: read 1, write 1, write 1 (second execution), read 2, write 2, read 3
    pub chunks: Vec<Chunk>,
    pub knob: Option<usize>,
}

pub struct C19;

fn bundled_names() -> Vec<String> {
    let mut names: Vec<String> = std::fs::read_dir("/repo/testdata")
        .map(|d| d.flatten().filter_map(|e| e.file_name().into_string().ok()).filter(|n| n.ends_with(".e57") && n != "corrupt_crc.e57").collect())
        .unwrap_or_default();
    names.sort();
    names
}

/// The writer program that copies what was read.
pub fn copy_program(src: &FileRead, knob: Option<usize>) -> Program {
    let mut calls = Vec::new();
    for (ns, url) in &src.extensions {
        calls.push(Call::RegisterExt { ns: ns.clone(), url: url.clone() });
    }
    if src.coord_meta.is_some() {
        calls.push(Call::CoordMeta(src.coord_meta.clone()));
    }
    if src.creation.is_some() {
        calls.push(Call::Creation(src.creation.clone()));
    }
    for pc in &src.pcs {
        let m = &pc.meta;
        let mut steps = vec![
            PcStep::Set(PcField::Name(m.name.clone())),
            PcStep::Set(PcField::Description(m.description.clone())),
            PcStep::Set(PcField::OriginalGuids(m.original_guids.clone())),
            PcStep::Set(PcField::Transform(m.transform.clone())),
            PcStep::Set(PcField::AcqStart(m.acq_start.clone())),
            PcStep::Set(PcField::AcqEnd(m.acq_end.clone())),
            PcStep::Set(PcField::SensorVendor(m.sensor_vendor.clone())),
            PcStep::Set(PcField::SensorModel(m.sensor_model.clone())),
            PcStep::Set(PcField::SensorSerial(m.sensor_serial.clone())),
            PcStep::Set(PcField::SensorHw(m.sensor_hw.clone())),
            PcStep::Set(PcField::SensorSw(m.sensor_sw.clone())),
            PcStep::Set(PcField::SensorFw(m.sensor_fw.clone())),
            PcStep::Set(PcField::Temperature(m.temperature)),
            PcStep::Set(PcField::Humidity(m.humidity)),
            PcStep::Set(PcField::Pressure(m.pressure)),
            // limits exactly as read: absent stays absent
            PcStep::Set(PcField::IntensityLimits(m.intensity_limits.clone())),
            PcStep::Set(PcField::ColorLimits(m.color_limits.clone())),
        ];
        if let Ok(points) = &pc.points {
            for p in points {
                steps.push(PcStep::Point(p.clone()));
            }
        }
        calls.push(Call::Pc { guid: pc.guid.clone().unwrap_or_default(), proto: pc.proto.clone(), steps, end: SubEnd::Finalize });
    }
    for img in &src.images {
        let mut steps = Vec::new();
        let m = &img.meta;
        if let Some(v) = &m.name {
            steps.push(ImgStep::Set(ImgField::Name(v.clone())));
        }
        if let Some(v) = &m.description {
            steps.push(ImgStep::Set(ImgField::Description(v.clone())));
        }
        if let Some(v) = &m.pointcloud_guid {
            steps.push(ImgStep::Set(ImgField::PcGuid(v.clone())));
        }
        if let Some(v) = &m.transform {
            steps.push(ImgStep::Set(ImgField::Transform(v.clone())));
        }
        if let Some(v) = &m.acquisition {
            steps.push(ImgStep::Set(ImgField::Acquisition(v.clone())));
        }
        if let Some(v) = &m.sensor_vendor {
            steps.push(ImgStep::Set(ImgField::SensorVendor(v.clone())));
        }
        if let Some(v) = &m.sensor_model {
            steps.push(ImgStep::Set(ImgField::SensorModel(v.clone())));
        }
        if let Some(v) = &m.sensor_serial {
            steps.push(ImgStep::Set(ImgField::SensorSerial(v.clone())));
        }
        for rep in [&img.visual, &img.projection].into_iter().flatten() {
            steps.push(ImgStep::Rep(RepSpecBytes::spec(rep)));
        }
        calls.push(Call::Img { guid: img.guid.clone().unwrap_or_default(), steps, end: SubEnd::Finalize });
    }
    Program { guid: src.guid.clone(), calls, end: End::Finalize, knob, on_error: OnError::Stop }
}

/// Image payloads of a copy are explicit bytes, not generated ones: carried through `Bytes` with
/// pattern 255 is not possible, so the executor gets them through a side table.
pub struct RepSpecBytes;

thread_local! {
    static PAYLOADS: std::cell::RefCell<Vec<Vec<u8>>> = const { std::cell::RefCell::new(Vec::new()) };
}

impl RepSpecBytes {
    fn spec(rep: &RepRead) -> RepSpec {
        let reg = |b: &Vec<u8>| -> Bytes {
            PAYLOADS.with(|p| {
                let mut p = p.borrow_mut();
                p.push(b.clone());
                Bytes { len: b.len(), seed: (p.len() - 1) as u64, pat: 200 }
            })
        };
        let empty = Vec::new();
        RepSpec {
            kind: rep.kind,
            format: rep.format,
            data: reg(rep.data.as_ref().unwrap_or(&empty)),
            mask: rep.mask.as_ref().map(|m| reg(m.as_ref().unwrap_or(&empty))),
            props: rep.props.clone(),
            pipe: Chunk::Full,
        }
    }
}

pub fn payload(seed: u64) -> Vec<u8> {
    PAYLOADS.with(|p| p.borrow().get(seed as usize).cloned().unwrap_or_default())
}

pub fn clear_payloads() {
    PAYLOADS.with(|p| p.borrow_mut().clear());
}

fn read_stage(image: &[u8], chunk: &Chunk, st: &mut RunStats) -> Result<FileRead, String> {
    let ctx = new_ctx(vec![]);
    let d = SimDisk::new(&ctx, DEV_DISK, image.to_vec(), chunk);
    let mut r = E57Reader::new(d).map_err(|e| format!("open: {e}"))?;
    let f = read_all(&mut r);
    st.absorb_ctx(&ctx);
    Ok(f)
}

fn write_stage(prog: &Program, chunk: &Chunk, st: &mut RunStats) -> Result<Vec<u8>, (String, String)> {
    let ctx = new_ctx(vec![]);
    let disk = SimDisk::new(&ctx, DEV_DISK, Vec::new(), chunk);
    let exec = exec_program(prog, &ctx, &disk);
    st.absorb_ctx(&ctx);
    if let Some(c) = exec.calls.iter().find(|c| !c.ok) {
        return Err(("copy-write-failed".into(), format!("writing the copy failed at {}: {}", c.label, c.err.clone().unwrap_or_default())));
    }
    if !exec.completed {
        return Err(("copy-write-failed".into(), "finalize of the copy did not succeed".into()));
    }
    Ok(disk.image())
}

/// Content comparison of what the writer API can express.
fn diff_content(got: &FileRead, want: &FileRead, with_bounds: bool) -> Option<String> {
    let mut g = got.clone();
    let mut w = want.clone();
    g.library_version = None;
    w.library_version = None;
    for (a, b) in g.pcs.iter_mut().zip(w.pcs.iter_mut()) {
        if !with_bounds {
            a.bounds = Bounds::default();
            b.bounds = Bounds::default();
        }
        // partial limits of the source cannot be written (the writer omits them since 0.11.10)
        if b.meta.intensity_limits.as_ref().map(|l| !l.complete()).unwrap_or(false) {
            a.meta.intensity_limits = None;
            b.meta.intensity_limits = None;
        }
        if b.meta.color_limits.as_ref().map(|l| !l.complete()).unwrap_or(false) {
            a.meta.color_limits = None;
            b.meta.color_limits = None;
        }
    }
    refcodec::diff_file(&g, &w, with_bounds)
}

fn run_case(case: &Case, st: &mut RunStats) -> Outcome<Case> {
    st.evaluations = 1;
    clear_payloads();
    let ch = |i: usize| case.chunks.get(i).cloned().unwrap_or(Chunk::Full);
    let source_image = match &case.origin {
        Origin::Generated { prog, source } => match build_image(prog, source, None) {
            Ok((img, _)) => img,
            Err((c, d)) => return Outcome::fail(c, d),
        },
        Origin::Bundled(name) => match std::fs::read(format!("/repo/testdata/{name}")) {
            Ok(b) => b,
            Err(e) => panic!("cannot read bundled file {name}: {e}"),
        },
    };
    // stage 1: read the source
    let src = match read_stage(&source_image, &ch(0), st) {
        Ok(f) => f,
        Err(e) => return Outcome::fail("source-unreadable", format!("source does not open: {e}")),
    };
    if src.pcs.iter().any(|p| p.points.is_err()) || src.images.iter().any(|i| [&i.visual, &i.projection].into_iter().flatten().any(|r| r.data.is_err())) {
        return Outcome::fail("source-unreadable", "a point cloud or blob of the source cannot be read".to_string());
    }
    // guards: what the writer API cannot express is outside the property
    let registered: Vec<(String, String)> = src.extensions.clone();
    if src.pcs.iter().any(|p| p.guid.is_none() || classify_proto(&p.proto, &registered) != Expect::MustAccept) || src.images.iter().any(|i| i.guid.is_none()) || src.guid.is_empty() {
        st.count("skipped_not_expressible", 1);
        return Outcome::Held;
    }
    // stage 2: write the copy, twice
    let prog1 = copy_program(&src, case.knob);
    let copy1 = match write_stage(&prog1, &ch(1), st) {
        Ok(i) => i,
        Err((c, d)) => return Outcome::fail(c, d),
    };
    // several more executions of the same write: a nondeterministic writer (hash order, clock,
    // randomness) then differs with overwhelming probability, so that a replay reproduces it
    for k in 0..6 {
        let copy1b = match write_stage(&prog1, &if k == 0 { ch(2) } else { Chunk::Full }, st) {
            Ok(i) => i,
            Err((c, d)) => return Outcome::fail(c, d),
        };
        if copy1 != copy1b {
            let pos = copy1.iter().zip(copy1b.iter()).position(|(a, b)| a != b);
            return Outcome::fail("write-not-deterministic", format!("writing the same content again (execution {}) gave a different file ({} vs {} bytes, first difference at {pos:?})", k + 2, copy1.len(), copy1b.len()));
        }
    }
    // stage 3: read the copy
    let c1 = match read_stage(&copy1, &ch(3), st) {
        Ok(f) => f,
        Err(e) => return Outcome::fail("copy-unreadable", format!("the copy does not open: {e}")),
    };
    if let Some(d) = diff_content(&c1, &src, false) {
        return Outcome::fail("copy-differs", format!("copy vs original: {d}"));
    }
    // stage 4: copy the copy
    let prog2 = copy_program(&c1, case.knob);
    let copy2 = match write_stage(&prog2, &ch(4), st) {
        Ok(i) => i,
        Err((c, d)) => return Outcome::fail(format!("second-{c}"), d),
    };
    let c2 = match read_stage(&copy2, &ch(5), st) {
        Ok(f) => f,
        Err(e) => return Outcome::fail("copy-unreadable", format!("the copy of the copy does not open: {e}")),
    };
    if let Some(d) = diff_content(&c2, &c1, true) {
        return Outcome::fail("second-copy-differs", format!("copy of the copy vs copy: {d}"));
    }
    if copy2 != copy1 {
        // same content, same call sequence: the bytes must be identical too (deterministic writer)
        return Outcome::fail("second-copy-bytes-differ", format!("copy of the copy has other bytes than the copy ({} vs {} bytes)", copy2.len(), copy1.len()));
    }
    let npts: u64 = src.pcs.iter().map(|p| p.records).sum();
    st.count("points_copied", npts);
    st.probe("bundled_file", matches!(case.origin, Origin::Bundled(_)));
    st.probe("producer_made_source", matches!(&case.origin, Origin::Generated { source: Source::Producer { .. }, .. }));
    st.probe("full_range_integer_without_min_max", src.pcs.iter().any(|p| p.proto.iter().any(|r| matches!(r.dt, DType::Int { min: i64::MIN, max: i64::MAX } | DType::Scaled { min: i64::MIN, max: i64::MAX, .. }))));
    st.probe("attribute_with_min_equal_max", src.pcs.iter().any(|p| p.proto.iter().any(|r| r.dt.bits() == 0)));
    let mut dg = Digest::new();
    dg.bytes(&copy1);
    st.digest = dg.finish();
    if npts > 0 || !src.images.is_empty() {
        let mut fp = Digest::new();
        for p in &src.pcs {
            fp.u64(p.records.min(64));
            for r in &p.proto {
                fp.u64(r.dt.kind() as u64).u64(r.dt.bits() as u64);
            }
        }
        fp.u64(src.images.len() as u64).u64(src.extensions.len() as u64);
        for c in &case.chunks {
            fp.str(c.name());
        }
        fp.str(&format!("{:?}", matches!(case.origin, Origin::Bundled(_))));
        st.fingerprint(fp.finish());
    }
    if st.sample.is_none() {
        st.sample = Some(json!({"origin": match &case.origin { Origin::Bundled(n) => format!("bundled {n}"), Origin::Generated { source, .. } => format!("generated, {}", match source { Source::Writer => "crate writer", _ => "refcodec producer" }) },
            "point_clouds": src.pcs.iter().map(|p| p.records).collect::<Vec<_>>(), "images": src.images.len(), "copy_bytes": copy1.len(),
            "chunk_schedules": case.chunks.iter().map(|c| c.name()).collect::<Vec<_>>()}));
    }
    Outcome::Held
}

impl Prop for C19 {
    type Case = Case;
    fn id(&self) -> &'static str {
        "C19"
    }
    fn meta(&self) -> Meta {
        Meta {
            level: "exploration",
            rule: "run indices 0..19 take the bundled files of /repo/testdata (all except corrupt_crc.e57); others a seeded scene written by the crate's writer (even) or encoded by the refcodec producer under a seeded layout (odd; Integer types without minimum/maximum, attributes with min = max, extension attributes). Pipeline over simulated disks, every stage under its own seeded chunk schedule: read everything -> write a copy (same prototypes and raw values, metadata, images, blobs; executed seven times) -> read the copy -> copy the copy -> read it. Oracle: every write succeeds; the two executions of the same write give byte-identical images; content of the copy = content of the original (points, prototypes, metadata, image properties, payload bytes); content and bytes of the copy of the copy = those of the copy. Distinct = hash(prototype shapes, counts, chunk schedule kinds, origin); non-trivial = at least one point or image".into(),
            assumptions: vec![
                "compared is what the writer API can express: sources with point clouds or images without GUID, or with prototypes outside the writer's documented rules, are skipped; e57LibraryVersion ignored; bounds compared only between copy and copy-of-copy; partial colour/intensity limits of a source are not compared".into(),
                "standalone blobs (not referenced from the XML) cannot be discovered by a reader and are not copied".into(),
            ],
            real: vec!["e57 crate reader and writer paths".into()],
            stub: vec!["three SimDisks per pipeline".into(), "refcodec producer".into(), "bundled files read from /repo/testdata into SimDisk".into()],
            required_probes: vec!["bundled_file".into(), "producer_made_source".into(), "full_range_integer_without_min_max".into(), "attribute_with_min_equal_max".into()],
        }
    }
    fn preflight(&self) -> Result<(), String> {
        refcodec::calibrate(false).map(|_| ())
    }
    fn plan(&self, tier: Tier) -> Plan {
        match tier {
            Tier::Quick => Plan { runs: 3600, time_box_s: None, isolation: Isolation::Threads },
            Tier::Thorough => Plan { runs: 1_000_000, time_box_s: Some(420), isolation: Isolation::Threads },
        }
    }
    fn generate(&self, rc: &RunCtx) -> Case {
        let mut c = Rng::stream(rc.run_seed, "chunk-dev");
        let chunks: Vec<Chunk> = (0..6).map(|_| Chunk::draw(&mut c)).collect();
        let mut g = Rng::stream(rc.run_seed, "cfg");
        let names = bundled_names();
        if (rc.index as usize) < names.len() {
            // big bundled files: full transfers for the device-heavy stages keep the run short
            let big = names[rc.index as usize].starts_with("bunny");
            let chunks = if big { vec![Chunk::Full, Chunk::Full, Chunk::Random { seed: 7, short_permille: 50 }, Chunk::Full, Chunk::Full, Chunk::Full] } else { chunks };
            return Case { origin: Origin::Bundled(names[rc.index as usize].clone()), chunks, knob: None };
        }
        let mut cfg = producer_cfg(&mut g);
        cfg.nasty_strings = true;
        let mut prog = gen_program(rc.run_seed, &cfg);
        let beyond_small = rc.index % 16 == 1;
        if beyond_small {
            // content beyond small-test scale: a cloud of several real 64 KiB packets with
            // mixed odd bit widths (the copy is written with the library's own packet capacity)
            // and a payload of 64 KiB or more
            prog.calls.push(super::c01::mixed_width_cloud(&mut g));
            let len = *g.pick(&[65_535usize, 65_536, 65_537, 70_000, 131_072, 200_003]);
            let mlen = *g.pick(&[0usize, 100, 65_536, 66_000]);
            prog.calls.push(Call::Img {
                guid: gen_guid(&mut g),
                steps: vec![ImgStep::Rep(RepSpec {
                    kind: crate::model::RepKind::Visual,
                    format: crate::model::Format::Jpeg,
                    data: crate::model::Bytes::draw(&mut g, len),
                    mask: if mlen > 0 { Some(crate::model::Bytes::draw(&mut g, mlen)) } else { None },
                    props: crate::model::RepProps { width: 640, height: 480, floats: vec![] },
                    pipe: Chunk::Full,
                })],
                end: SubEnd::Finalize,
            });
        }
        let source = if rc.index % 2 == 0 {
            Source::Writer
        } else {
            let mut l = Rng::stream(rc.run_seed, "layout");
            // guids must be present for the copy: foreign bits 0 and 1 off; bounds, partial limits, version on at random
            Source::Producer { layout: Layout::draw(&mut l), foreign: (g.below(32) as u8) & !3 }
        };
        let knob = if beyond_small || g.chance(1, 2) { None } else { Some(*g.pick(&KNOBS)) };
        Case { origin: Origin::Generated { prog, source }, chunks, knob }
    }
    fn execute(&self, case: &Case, st: &mut RunStats) -> Outcome<Case> {
        run_case(case, st)
    }
    fn shrink(&self, case: &Case) -> Vec<Case> {
        let mut out = Vec::new();
        if let Origin::Generated { prog, source } = &case.origin {
            for p in shrink_program(prog) {
                out.push(Case { origin: Origin::Generated { prog: p, source: source.clone() }, ..case.clone() });
            }
            if let Source::Producer { layout, foreign } = source {
                for l in super::c03::shrink_layout(layout) {
                    out.push(Case { origin: Origin::Generated { prog: prog.clone(), source: Source::Producer { layout: l, foreign: *foreign } }, ..case.clone() });
                }
            }
        }
        for i in 0..case.chunks.len() {
            if case.chunks[i] != Chunk::Full {
                let mut c = case.clone();
                c.chunks[i] = Chunk::Full;
                out.push(c);
            }
        }
        if case.knob.is_some() {
            out.push(Case { knob: None, ..case.clone() });
        }
        out
    }
}
