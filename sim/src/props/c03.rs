//! C03 – the reader decodes every well-formed E57 file whatever legal layout was chosen.
//!
//! scene -> foreign producer (refcodec encoder) with a seeded layout schedule -> SimDisk ->
//! E57Reader -> listings, raw iteration, blobs; compared with the scene.

use super::writer_rt::*;
use crate::adapter::*;
use crate::gen::*;
use crate::model::*;
use crate::program::*;
use crate::refcodec::encode::{encode, EncScene, Encoded, Layout, Split};
use crate::refcodec::{self, decode};
use crate::rng::{Digest, Rng};
use crate::runner::*;
use crate::simdisk::*;
use e57::{Blob, E57Reader};
use serde::{Deserialize, Serialize};
use serde_json::json;

#[derive(Clone, Debug, Serialize, Deserialize)]
pub struct Case {
    pub prog: Program,
    pub layout: Layout,
    pub rchunk: Chunk,
    /// producer-only scene features: bit 0 drop point cloud guids, 1 drop image guids, 2 add bounds,
    /// 3 partial limits, 4 library version string
    pub foreign: u8,
    /// Some(name): instead of a produced file, the bundled file /repo/testdata/<name> (written by
    /// E57RefImpl / libE57Format / las2e57) is read by the crate and by the independent decoder
    #[serde(default)]
    pub bundled: Option<String>,
}

pub struct C03;

pub fn producer_cfg(g: &mut Rng) -> ProgCfg {
    ProgCfg {
        max_items: 4,
        knob: Some(50),
        placement_residue: None,
        nasty_strings: true,
        ext: true,
        allow_abandon: false,
        max_points_knob_off: 0,
        custom_xml: false,
        small: g.chance(1, 2),
        big_permille: 25,
    }
}

/// Scene of the case: the program's scene plus producer-only features.
pub fn scene_for(prog: &Program, foreign: u8, seed: u64) -> EncScene {
    let e = scene_of(prog);
    let mut s = EncScene { file: e.file, blobs: e.blobs };
    let mut r = Rng::new(seed ^ 0x5151);
    if foreign & 16 != 0 {
        s.file.library_version = Some("refcodec foreign producer 0.1 <&>".into());
    }
    for pc in s.file.pcs.iter_mut() {
        if foreign & 1 != 0 && r.chance(1, 2) {
            pc.guid = None;
        }
        if foreign & 4 != 0 {
            let f = |r: &mut Rng| if r.chance(3, 4) { Some(B64::of(gen_finite(r))) } else { None };
            if r.chance(1, 2) {
                pc.bounds.cartesian = Some([f(&mut r), f(&mut r), f(&mut r), f(&mut r), f(&mut r), f(&mut r)]);
            }
            if r.chance(1, 2) {
                pc.bounds.spherical = Some([f(&mut r), f(&mut r), f(&mut r), f(&mut r), f(&mut r), f(&mut r)]);
            }
            if r.chance(1, 2) {
                let g = |r: &mut Rng| if r.chance(3, 4) { Some(r.irange(-5, 100000)) } else { None };
                pc.bounds.index = Some([g(&mut r), g(&mut r), g(&mut r), g(&mut r), g(&mut r), g(&mut r)]);
            }
        }
        if foreign & 32 != 0 {
            sloppy_values(pc, &mut r);
        }
        if foreign & 8 != 0 {
            if let Some(l) = pc.meta.intensity_limits.as_mut() {
                if r.chance(1, 2) {
                    l.max = None;
                }
            }
            if let Some(l) = pc.meta.color_limits.as_mut() {
                if r.chance(1, 2) {
                    l.0[r.usize_below(6)] = None;
                }
            }
        }
    }
    for img in s.file.images.iter_mut() {
        if foreign & 2 != 0 && r.chance(1, 2) {
            img.guid = None;
        }
    }
    s
}

/// What other producers store and the crate's writer cannot: invalid-state records with a wider
/// integer type than the documented set needs (in-set values unchanged, a few stored values
/// outside the set), and colour/intensity bit patterns above the declared maximum of a record
/// whose range is no power of two, with limits that reach beyond the record's range.
fn sloppy_values(pc: &mut PcRead, r: &mut Rng) {
    use crate::model::std_name::*;
    let points = match pc.points.as_mut() {
        Ok(p) => p,
        Err(_) => return,
    };
    for k in 0..pc.proto.len() {
        let std = match pc.proto[k].name {
            Name::Std(i) => i,
            _ => continue,
        };
        if [CINV, SINV, COLINV, IINV].contains(&std) {
            if !matches!(pc.proto[k].dt, DType::Int { .. }) || r.chance(1, 3) {
                continue;
            }
            if r.chance(1, 6) {
                // a constant state record (minimum = maximum, no bits in the file): every point
                // of the cloud has that state
                let upper = if std == CINV || std == SINV { 3 } else { 2 };
                let c = r.below(upper) as i64;
                pc.proto[k].dt = DType::Int { min: c, max: c };
                for p in points.iter_mut() {
                    p[k] = Val::I(c);
                }
                continue;
            }
            let (lo, hi) = *r.pick(&[(0i64, 255i64), (-1, 2), (0, 1000), (0, 65535), (-128, 127), (i64::MIN, i64::MAX), (0, 3), (-300, 300), (0, 256)]);
            pc.proto[k].dt = DType::Int { min: lo, max: hi };
            if r.chance(1, 2) && !points.is_empty() {
                let menu = [3i64, 255, 256, 257, 258, 512, -1, -254, -255, -256, i64::MIN, i64::MAX, hi, lo, 2];
                for _ in 0..1 + r.below(2) {
                    let v = *r.pick(&menu);
                    if v >= lo && v <= hi {
                        let at = r.usize_below(points.len());
                        points[at][k] = Val::I(v);
                    }
                }
            }
        } else if [INT, RED, GREEN, BLUE].contains(&std) {
            let (min, max, scaled) = match &pc.proto[k].dt {
                DType::Int { min, max } => (*min, *max, None),
                DType::Scaled { min, max, scale, offset } => (*min, *max, Some((scale.f(), offset.f()))),
                _ => continue,
            };
            let bits = int_bits(min, max);
            if bits == 0 || bits > 62 || points.is_empty() || r.chance(1, 2) {
                continue;
            }
            let top = min as i128 + ((1i128 << bits) - 1);
            if top <= max as i128 || top > i64::MAX as i128 {
                continue;
            }
            let top = top as i64;
            for _ in 0..1 + r.below(3) {
                let v = match r.below(3) {
                    0 => top,
                    1 => max + 1,
                    _ => max + 1 + (r.next_u64() % (top - max) as u64) as i64,
                };
                let at = r.usize_below(points.len());
                points[at][k] = if scaled.is_some() { Val::SI(v) } else { Val::I(v) };
            }
            if r.chance(2, 3) {
                // limits that cover every bit pattern of the record
                let (lo, hi) = match scaled {
                    None => (Lim::I(min), Lim::I(top)),
                    Some((s, o)) => {
                        let a = min as f64 * s + o;
                        let b = top as f64 * s + o;
                        (Lim::D(B64::of(a.min(b))), Lim::D(B64::of(a.max(b))))
                    }
                };
                if std == INT {
                    pc.meta.intensity_limits = Some(ILim { min: Some(lo), max: Some(hi) });
                } else {
                    let base = 2 * (std - RED) as usize;
                    let mut l = pc.meta.color_limits.clone().unwrap_or(CLim([None; 6]));
                    l.0[base] = Some(lo);
                    l.0[base + 1] = Some(hi);
                    pc.meta.color_limits = Some(l);
                }
            }
        }
    }
}

/// Self-check of the producer: its output must pass the independent fsck and decode to the scene.
pub fn producer_self_check(scene: &EncScene, enc: &Encoded) -> Result<(), String> {
    let (dec, problems) = decode::analyse(&enc.image);
    if let Some(p) = problems.first() {
        return Err(format!("producer output breaks fsck rule: {p}"));
    }
    let dec = dec.ok_or("producer output not decodable")?;
    if let Some(d) = refcodec::diff_file(&dec.file, &scene.file, true) {
        return Err(format!("producer output does not decode to the scene: {d}"));
    }
    if dec.file.library_version != scene.file.library_version {
        return Err("library version differs".into());
    }
    for (i, ((off, len), want)) in enc.blob_descs.iter().zip(scene.blobs.iter()).enumerate() {
        let (r, problems) = decode::standalone_blob(&enc.image, *off, *len);
        if !problems.is_empty() || r.as_ref().ok() != Some(want) {
            return Err(format!("standalone blob {i} does not decode: {problems:?}"));
        }
    }
    Ok(())
}

pub fn note_layout(st: &mut RunStats, enc: &Encoded, layout: &Layout) {
    let s = &enc.stats;
    st.count("data_packets", s.data_packets);
    st.count("index_packets", s.index_packets);
    st.count("ignored_packets", s.ignored_packets);
    st.probe("producer_packet_completes_no_point", s.packets_completing_no_point > 0);
    st.probe("empty_stream_in_packet", s.empty_streams > 0);
    st.probe("data_packet_with_all_streams_empty", s.all_empty_data_packets > 0);
    st.probe("value_cut_across_packets", s.values_cut_across_packets > 0);
    st.probe("non_data_packet_first", s.non_data_first);
    st.probe("pages_of_ignored_packets_before_first_data_packet", s.pages_of_leading_non_data);
    st.probe("non_data_packet_between_data_packets", s.non_data_middle);
    st.probe("non_data_packet_last", s.non_data_last);
    st.probe("data_packet_longer_than_60000_bytes", s.max_packet_len > 60_000);
    st.probe("stream_slice_longer_than_32767_bytes", s.max_stream_len_in_packet > 32_767);
    st.probe("ignored_packet_of_65536_bytes", s.max_non_data_packet_len == 65536);
    st.probe("index_packet_above_leaf_level", s.max_index_level > 0);
    st.probe("more_than_1024_non_data_packets_between_two_data_packets", s.long_run_of_non_data);
    st.probe("xml_lexical_variants", layout.lexical);
    st.probe("optional_type_attributes_omitted", layout.omit_defaults);
    st.probe("sections_shuffled_and_padded", layout.shuffle);
    for r in &s.section_residues {
        st.set_add("section_start_residue", *r);
    }
    for c in &s.cut_offsets_in_value {
        st.set_add("value_cut_position(width_bytes*100+offset)", *c);
    }
}

fn run_case(case: &Case, st: &mut RunStats) -> Outcome<Case> {
    st.evaluations = 1;
    if let Some(name) = &case.bundled {
        st.probe("bundled_foreign_file", true);
        let mut fp = Digest::new();
        fp.str(name);
        st.fingerprint(fp.finish());
        return match refcodec::compare_bundled_with_crate(name) {
            Ok(()) => Outcome::Held,
            Err(d) => Outcome::fail("bundled-file-differs", d),
        };
    }
    let scene = scene_for(&case.prog, case.foreign, case.layout.seed);
    let enc = encode(&scene, &case.layout);
    if let Err(e) = producer_self_check(&scene, &enc) {
        panic!("producer self check failed: {e}");
    }
    note_layout(st, &enc, &case.layout);
    let ctx = new_ctx(vec![]);
    let disk = SimDisk::new(&ctx, DEV_DISK, enc.image.clone(), &case.rchunk);
    let mut r = match E57Reader::new(disk) {
        Ok(r) => r,
        Err(e) => return Outcome::fail("open-failed", format!("well-formed file rejected by E57Reader::new: {e}")),
    };
    let got = read_all(&mut r);
    let mut want = scene.file.clone();
    want.xml = got.xml.clone();
    if got.library_version != want.library_version {
        return Outcome::fail("meta-library-version", format!("library version {:?}, encoded {:?}", got.library_version, want.library_version));
    }
    if let Some((class, detail)) = compare_points(&got, &want) {
        return Outcome::fail(class, detail);
    }
    if let Some((class, detail)) = compare_metadata(&got, &want) {
        return Outcome::fail(class, detail);
    }
    for (i, (g, w)) in got.pcs.iter().zip(want.pcs.iter()).enumerate() {
        if g.bounds != w.bounds {
            return Outcome::fail("meta-bounds", format!("point cloud {i}: bounds {:?}, encoded {:?}", g.bounds, w.bounds));
        }
    }
    // blobs: standalone by descriptor, image payloads through the listed descriptors
    let mut blobs = Vec::new();
    for (i, (off, len)) in enc.blob_descs.iter().enumerate() {
        let mut s = PipeSink::new(&ctx, DEV_PIPE + (i % 50) as u8, &Chunk::Full);
        blobs.push(match read_blob(&mut r, &Blob::new(*off, *len), &mut s) {
            Ok(n) if n == *len && s.data.len() as u64 == *len => Ok(s.data),
            Ok(n) => Err(format!("descriptor length {len}, returned {n}, received {}", s.data.len())),
            Err(e) => Err(e),
        });
    }
    let rb = ReadBack { file: got, blobs, pc_offsets: vec![], blob_offsets: vec![] };
    let exp = Expected { file: want, blobs: scene.blobs.clone() };
    if let Some((class, detail)) = compare_blobs(&rb, &exp) {
        return Outcome::fail(class, detail);
    }
    st.absorb_ctx(&ctx);
    let npts: u64 = exp.file.pcs.iter().map(|p| p.records).sum();
    st.count("points", npts);
    let mut dg = Digest::new();
    dg.bytes(&enc.image);
    st.digest = dg.finish();
    if npts > 0 || !exp.blobs.is_empty() || !exp.file.images.is_empty() {
        let wc = WriterCase { prog: case.prog.clone(), wchunk: Chunk::Full, rchunk: case.rchunk.clone(), sink: Chunk::Full, legacy_blob_headers: false };
        let mut fp = Digest::new();
        fp.u64(shape_fingerprint(&wc, None));
        fp.u64(enc.stats.data_packets).u64(enc.stats.index_packets).u64(enc.stats.ignored_packets).u64(enc.stats.empty_streams.min(8)).u64(enc.stats.packets_completing_no_point.min(8));
        fp.u64(case.layout.lexical as u64).u64(case.layout.omit_defaults as u64).u64(case.layout.shuffle as u64).u64(case.foreign as u64);
        for r in &enc.stats.section_residues {
            fp.u64(*r);
        }
        st.fingerprint(fp.finish());
    }
    if st.sample.is_none() {
        st.sample = Some(json!({"layout": format!("{:?}", case.layout), "foreign_features": case.foreign,
            "point_clouds": exp.file.pcs.iter().map(|p| format!("{} records x {} attributes", p.records, p.proto.len())).collect::<Vec<_>>(),
            "images": exp.file.images.len(), "blobs": exp.blobs.len(), "image_bytes": enc.image.len(),
            "data_packets": enc.stats.data_packets, "index_packets": enc.stats.index_packets, "ignored_packets": enc.stats.ignored_packets}));
    }
    Outcome::Held
}

pub fn shrink_layout(l: &Layout) -> Vec<Layout> {
    let mut out = Vec::new();
    if l.split != Split::Whole {
        out.push(Layout { split: Split::Whole, ..l.clone() });
    }
    if l.non_data_packets {
        out.push(Layout { non_data_packets: false, ..l.clone() });
    }
    if l.shuffle {
        out.push(Layout { shuffle: false, ..l.clone() });
    }
    if l.omit_defaults {
        out.push(Layout { omit_defaults: false, ..l.clone() });
    }
    if l.lexical {
        out.push(Layout { lexical: false, ..l.clone() });
    }
    if l.max_packets > 4 {
        out.push(Layout { max_packets: l.max_packets / 2, ..l.clone() });
    }
    out
}

impl Prop for C03 {
    type Case = Case;
    fn id(&self) -> &'static str {
        "C03"
    }
    fn meta(&self) -> Meta {
        Meta {
            level: "exploration",
            rule: "run indices 0..19: the bundled files of /repo/testdata written by E57RefImpl, libE57Format and las2e57, read by the crate and by refcodec's decoder, results compared; other indices: seeded scenes (C01 generator: 0-4 items, <= 400 points per cloud and in 2.5 % of the runs one cloud of 3 000 - 70 000 points or a blob of 64 - 200 KiB, all record types and widths, extension attributes, full metadata string pool; producer-only features: missing guids, arbitrary bounds, partial limits, library version) encoded by the independent producer under a seeded layout schedule: per cloud a packetisation (whole / k points per packet / ragged: independent byte counts per stream and packet biased to 0, 1, all, cuts inside multi-byte values; up to 4/12/60 packets), index and ignored packets before, between and after data packets, shuffled section order with the XML anywhere and unreferenced padding, omitted optional type attributes (Integer minimum/maximum, scale, offset, precision), XML lexical variants (order of the children of the root and of each point cloud structure, attribute order and quoting, whitespace incl. CRLF, comments, processing instructions, CDATA vs escaped text vs character references vs mixed, empty-element tags, number formats, missing declaration, missing empty data3D/images2D). The producer's output must pass refcodec's own fsck and decode to the scene (self check, else harness error). The crate's reader on a SimDisk with seeded short reads must list the encoded metadata, yield exactly recordCount points with the encoded values, and return every blob. Distinct = hash(scene shape, packet counts, layout switches, section residues); non-trivial = at least one point or payload".into(),
            assumptions: vec![
                "legal layout space is conservative: only choices both the format description and libE57Format-written files support".into(),
                "prototypes have at least one sized record (a legal all-constant prototype is a listed known finding class, excluded from generation)".into(),
                "every date-time carries isAtomicClockReferenced".into(),
            ],
            real: vec!["e57 crate reader paths".into(), "roxmltree".into()],
            stub: vec!["refcodec encoder (foreign producer)".into(), "SimDisk".into(), "scene model".into()],
            required_probes: vec![
                "producer_packet_completes_no_point".into(),
                "empty_stream_in_packet".into(),
                "data_packet_with_all_streams_empty".into(),
                "value_cut_across_packets".into(),
                "non_data_packet_first".into(),
                "pages_of_ignored_packets_before_first_data_packet".into(),
                "non_data_packet_between_data_packets".into(),
                "non_data_packet_last".into(),
                "xml_lexical_variants".into(),
                "optional_type_attributes_omitted".into(),
                "sections_shuffled_and_padded".into(),
                "bundled_foreign_file".into(),
                "data_packet_longer_than_60000_bytes".into(),
                "stream_slice_longer_than_32767_bytes".into(),
            ],
        }
    }
    fn preflight(&self) -> Result<(), String> {
        refcodec::calibrate(false).map(|_| ())
    }
    fn plan(&self, tier: Tier) -> Plan {
        match tier {
            Tier::Quick => Plan { runs: 12000, time_box_s: None, isolation: Isolation::Threads },
            Tier::Thorough => Plan { runs: 5_000_000, time_box_s: Some(480), isolation: Isolation::Threads },
        }
    }
    fn generate(&self, rc: &RunCtx) -> Case {
        let mut g = Rng::stream(rc.run_seed, "cfg");
        let cfg = producer_cfg(&mut g);
        let mut prog = gen_program(rc.run_seed, &cfg);
        if rc.index % 128 == 100 {
            // a prototype of several hundred sized attributes (the stream table of a data packet
            // has one 16-bit entry per attribute; 255 / 256 / 257 and 511 / 512 / 513 are borders
            // of one-byte and block-wise bookkeeping)
            let ns = "many".to_string();
            if !prog.calls.iter().any(|c| matches!(c, Call::RegisterExt { ns: n, .. } if *n == ns)) {
                prog.calls.insert(0, Call::RegisterExt { ns: ns.clone(), url: "http://example.org/many-attributes".into() });
            }
            let extra = *g.pick(&[252usize, 253, 254, 300, 508, 509, 510, 700]);
            let mut proto: Vec<Rec> = [0u8, 1, 2].iter().map(|i| Rec { name: Name::Std(*i), dt: DType::Double { min: None, max: None } }).collect();
            for i in 0..extra {
                let dt = match i % 4 {
                    0 => DType::Int { min: 0, max: 255 },
                    1 => DType::Int { min: -3, max: 4 },
                    2 => DType::Single { min: None, max: None },
                    _ => DType::Int { min: 0, max: 65535 },
                };
                proto.push(Rec { name: Name::Ext { ns: ns.clone(), name: format!("a{i}") }, dt });
            }
            let n = 1 + g.usize_below(12);
            prog.calls.push(Call::Pc { guid: gen_guid(&mut g), proto, steps: vec![PcStep::Points { n, seed: g.next_u64() }], end: SubEnd::Finalize });
        }
        let mut l = Rng::stream(rc.run_seed, "layout");
        let mut layout = Layout::draw(&mut l);
        if rc.index % 1024 == 700 {
            // more than half a million points written attribute by attribute: the one-bit
            // attribute is complete after two packets while the others have just begun
            let proto: Vec<Rec> = vec![
                Rec { name: Name::Std(0), dt: DType::Int { min: 0, max: 1 } },
                Rec { name: Name::Std(1), dt: DType::Int { min: 0, max: 255 } },
                Rec { name: Name::Std(2), dt: DType::Int { min: -128, max: 127 } },
            ];
            let n = 540_000 + g.usize_below(80_000);
            prog.calls.retain(|c| !matches!(c, Call::Pc { .. }));
            prog.calls.push(Call::Pc { guid: gen_guid(&mut g), proto, steps: vec![PcStep::Points { n, seed: g.next_u64() }], end: SubEnd::Finalize });
            layout.split = Split::Sequential;
            layout.max_packets = 60;
        }
        let mut c = Rng::stream(rc.run_seed, "chunk-dev");
        let names = refcodec::bundled_names();
        let bundled = if (rc.index as usize) < names.len() { Some(names[rc.index as usize].clone()) } else { None };
        Case { prog, layout, rchunk: Chunk::draw(&mut c), foreign: g.below(32) as u8, bundled }
    }
    fn execute(&self, case: &Case, st: &mut RunStats) -> Outcome<Case> {
        run_case(case, st)
    }
    fn known_finding(&self, case: &Case, v: &Violation) -> Option<&'static str> {
        let all_constant = case.prog.calls.iter().any(|c| matches!(c, Call::Pc { proto, .. } if !proto.is_empty() && proto.iter().all(|r| r.dt.bits() == 0)));
        if all_constant && (v.class == "points-read-error" || v.class == "points") {
            return Some("F13b");
        }
        None
    }
    fn regressions(&self) -> Vec<(String, Case)> {
        let proto = vec![
            Rec { name: Name::Std(0), dt: DType::Int { min: 7, max: 7 } },
            Rec { name: Name::Std(1), dt: DType::Int { min: -5, max: -5 } },
            Rec { name: Name::Std(2), dt: DType::Scaled { min: 0, max: 0, scale: B64::of(0.001), offset: B64::of(0.0) } },
        ];
        let prog = Program {
            guid: "file".into(),
            calls: vec![Call::Pc { guid: "pc".into(), proto, steps: vec![PcStep::Points { n: 3, seed: 1 }], end: SubEnd::Finalize }],
            end: End::Finalize,
            knob: None,
            on_error: OnError::Stop,
        };
        vec![("F13b legal file whose records all have minimum = maximum".into(), Case { prog, layout: Layout::plain(1), rchunk: Chunk::Full, foreign: 0, bundled: None })]
    }
    fn shrink(&self, case: &Case) -> Vec<Case> {
        let mut out = Vec::new();
        for l in shrink_layout(&case.layout) {
            out.push(Case { layout: l, ..case.clone() });
        }
        for p in shrink_program(&case.prog) {
            out.push(Case { prog: p, ..case.clone() });
        }
        for b in 0..5 {
            if case.foreign & (1 << b) != 0 {
                out.push(Case { foreign: case.foreign & !(1 << b), ..case.clone() });
            }
        }
        if case.rchunk != Chunk::Full {
            out.push(Case { rchunk: Chunk::Full, ..case.clone() });
        }
        out
    }
}
