//! C15 – an interrupted write is never mistaken for a complete file.
//!
//! Per program: every prefix of the device write log x torn cuts of the next write; drop without
//! finalize after every call prefix; failing XML transformer; hard device error inside finalize.

use super::writer_rt::*;
use crate::gen::*;
use crate::history::*;
use crate::program::*;
use crate::refcodec;
use crate::rng::{Digest, Rng};
use crate::runner::*;
use crate::simdisk::*;
use serde::{Deserialize, Serialize};
use serde_json::json;

#[derive(Clone, Debug, PartialEq, Serialize, Deserialize)]
pub enum Point {
    /// first k device writes applied completely, then the first t bytes of write k+1
    Crash { k: usize, t: usize },
    /// run only the first j top-level calls (the last one cut to its first s sub-steps and abandoned), then drop the writer
    DropAfter { j: usize, s: Option<usize> },
    /// the XML transformer fails
    XmlFail,
    /// device error at this operation (inside the top-level finalize), then drop; eintr: the
    /// error is ErrorKind::Interrupted instead of a hard error
    FinalizeError {
        at: u64,
        #[serde(default)]
        eintr: bool,
    },
    /// the device is not empty: it still holds an older complete E57 file (cursor at 0) when the
    /// writer is created; crash after the first k device writes
    Prefilled { k: usize },
}

#[derive(Clone, Debug, Serialize, Deserialize)]
pub struct Case {
    pub prog: Program,
    pub wchunk: Chunk,
    pub point: Option<Point>,
    /// cut positions inside a torn write
    pub cuts: Vec<usize>,
}

pub struct C15;

const CUTS: [usize; 17] = [1, 16, 24, 25, 32, 33, 34, 40, 47, 48, 511, 512, 1019, 1020, 1021, 1023, 1000];
const SECTOR_CUTS: [usize; 3] = [256, 512, 768];

struct Reference {
    image: Vec<u8>,
    run: ReaderRun,
    hist: Vec<ROp>,
    blob_descs: Vec<(u64, u64)>,
    pcs: Vec<(Option<String>, u64, u64, usize)>,
    images: Vec<Option<String>>,
}

fn listing(image: &[u8]) -> Result<(Vec<(Option<String>, u64, u64, usize)>, Vec<Option<String>>), String> {
    let ctx = new_ctx(vec![]);
    let d = SimDisk::new(&ctx, DEV_DISK2, image.to_vec(), &Chunk::Full);
    let r = e57::E57Reader::new(d).map_err(|e| e.to_string())?;
    let pcs = r.pointclouds().iter().map(|p| (p.guid.clone(), p.records, p.file_offset, p.prototype.len())).collect();
    let images = r.images().iter().map(|i| i.guid.clone()).collect();
    Ok((pcs, images))
}

/// Ok(accepted?) or a violation.
fn judge_image(image: &[u8], reference: &Reference, must_reject: bool, what: &str) -> Result<bool, (String, String)> {
    if image.is_empty() {
        // nothing on the device: E57Reader::new must fail (it does: header read fails)
    }
    let ctx = new_ctx(vec![]);
    let run = reader_run(image, &ctx, &Chunk::Full, &reference.blob_descs, &reference.hist, false);
    if run.open.is_err() {
        return Ok(false);
    }
    if must_reject {
        return Err((
            "incomplete-accepted".into(),
            format!("{what}: image of {} bytes from before the completion of the top-level finalize is accepted by E57Reader::new", image.len()),
        ));
    }
    let (pcs, images) = listing(image).map_err(|e| ("listing-failed".to_string(), format!("{what}: {e}")))?;
    if pcs != reference.pcs || images != reference.images {
        return Err((
            "accepted-with-other-listing".into(),
            format!("{what}: accepted image lists {} point clouds / {} images, the completed file {} / {} (or their descriptors differ)", pcs.len(), images.len(), reference.pcs.len(), reference.images.len()),
        ));
    }
    for (i, (a, b)) in run.recs.iter().zip(reference.run.recs.iter()).enumerate() {
        if !a.result.err_or_same(&b.result) {
            return Err((
                "accepted-with-other-data".into(),
                format!("{what}: read op #{i} on the accepted image gives {}, the completed file {}", a.result.brief(), b.result.brief()),
            ));
        }
    }
    Ok(true)
}

fn build_image(writes: &[(u64, Vec<u8>)], k: usize, t: usize) -> Vec<u8> {
    let mut img: Vec<u8> = Vec::new();
    let mut apply = |off: u64, data: &[u8]| {
        let off = off as usize;
        if img.len() < off {
            img.resize(off, 0);
        }
        if img.len() < off + data.len() {
            img.resize(off + data.len(), 0);
        }
        img[off..off + data.len()].copy_from_slice(data);
    };
    for (off, data) in writes.iter().take(k) {
        apply(*off, data);
    }
    if t > 0 {
        if let Some((off, data)) = writes.get(k) {
            let t = t.min(data.len());
            apply(*off, &data[..t]);
        }
    }
    img
}

fn truncated(prog: &Program, j: usize, s: Option<usize>) -> Program {
    let mut p = prog.clone();
    p.calls.truncate(j);
    if let (Some(s), Some(last)) = (s, p.calls.last_mut()) {
        match last {
            Call::Pc { steps, end, .. } => {
                steps.truncate(s);
                *end = SubEnd::Abandon;
            }
            Call::Img { steps, end, .. } => {
                steps.truncate(s);
                *end = SubEnd::Abandon;
            }
            _ => {}
        }
    }
    p.end = End::DropOnly;
    p
}

/// Where the XML section of the completed file ends, as logical offset modulo the page payload.
fn xml_end_residue(prog: &Program) -> Option<u64> {
    let ctx = new_ctx(vec![]);
    let d = SimDisk::new(&ctx, DEV_DISK, Vec::new(), &Chunk::Full);
    let e = exec_program(prog, &ctx, &d);
    let img = d.image();
    if !e.completed || img.len() < 48 {
        return None;
    }
    let phys = u64::from_le_bytes(img[24..32].try_into().unwrap());
    let len = u64::from_le_bytes(img[32..40].try_into().unwrap());
    let logical = phys - (phys / 1024) * 4;
    Some((logical + len) % 1020)
}

/// Choose the length of the coordinate metadata string so that the XML section ends `target`
/// bytes behind a page payload boundary (0 = the XML fills its last page exactly).
fn tune_xml_end(prog: &mut Program, target: u64) {
    prog.calls.retain(|c| !matches!(c, Call::CoordMeta(_)));
    prog.calls.insert(0, Call::CoordMeta(Some("x".into())));
    if let Some(e1) = xml_end_residue(prog) {
        let extra = (target + 1020 - e1) % 1020;
        prog.calls[0] = Call::CoordMeta(Some("x".repeat(1 + extra as usize)));
    }
}

fn run_case(case: &Case, st: &mut RunStats) -> Outcome<Case> {
    // 1. the completed file and its write log
    let ctx = new_ctx(vec![]);
    {
        let mut c = ctx.borrow_mut();
        c.record_ops = true;
        c.record_writes = true;
    }
    let disk = SimDisk::new(&ctx, DEV_DISK, Vec::new(), &case.wchunk);
    let exec = exec_program(&case.prog, &ctx, &disk);
    st.absorb_ctx(&ctx);
    if let Some((class, detail)) = call_contradiction(&exec) {
        return Outcome::fail(class, detail);
    }
    if !exec.completed {
        return Outcome::fail("not-finalized", "the fault-free program did not finalize");
    }
    if exec.dirty_after_finalize {
        return Outcome::fail("ok-but-unflushed", "top-level finalize returned Ok but the device has unflushed writes");
    }
    let final_image = disk.image();
    let fin_from = exec.finalize_op_from.unwrap_or(0);
    let log: Vec<DevOp> = ctx.borrow().log.iter().filter(|o| o.dev == DEV_DISK).cloned().collect();
    let writes: Vec<(u64, Vec<u8>)> = log
        .iter()
        .filter(|o| o.kind == OpKind::Write && o.moved > 0)
        .map(|o| (o.offset, o.data.clone().unwrap_or_default()))
        .collect();
    // number of writes issued before the top-level finalize call started
    let writes_before_finalize = log.iter().filter(|o| o.kind == OpKind::Write && o.moved > 0 && o.no < fin_from).count();
    let probe_ctx = new_ctx(vec![]);
    let probe = reader_run(&final_image, &probe_ctx, &Chunk::Full, &exec.blob_descs, &[], false);
    if let Err(e) = &probe.open {
        return Outcome::fail("reopen-failed", format!("completed file does not open: {e}"));
    }
    let hist = full_history(probe.n_pcs, probe.n_blobs, true);
    let rctx = new_ctx(vec![]);
    let ref_run = reader_run(&final_image, &rctx, &Chunk::Full, &exec.blob_descs, &hist, false);
    let (pcs, images) = match listing(&final_image) {
        Ok(l) => l,
        Err(e) => return Outcome::fail("reopen-failed", e),
    };
    let reference = Reference { image: final_image.clone(), run: ref_run, hist, blob_descs: exec.blob_descs.clone(), pcs, images };
    let fsck_complete = |img: &[u8]| -> bool { refcodec::quick_complete(img) };
    let reference_fsck_clean = refcodec::decode::analyse(&final_image).1.is_empty();

    // 2. enumerate
    let mut points: Vec<Point> = Vec::new();
    match &case.point {
        Some(p) => points.push(p.clone()),
        None => {
            for k in 0..=writes.len() {
                points.push(Point::Crash { k, t: 0 });
                if let Some((_, data)) = writes.get(k) {
                    for t in case.cuts.iter().filter(|t| **t < data.len()) {
                        points.push(Point::Crash { k, t: *t });
                    }
                }
            }
            for j in 0..=case.prog.calls.len() {
                points.push(Point::DropAfter { j, s: None });
                if j > 0 {
                    let n = match &case.prog.calls[j - 1] {
                        Call::Pc { steps, .. } => steps.len(),
                        Call::Img { steps, .. } => steps.len(),
                        _ => 0,
                    };
                    for s in 0..n {
                        points.push(Point::DropAfter { j, s: Some(s) });
                    }
                }
            }
            points.push(Point::XmlFail);
            for o in log.iter().filter(|o| o.no >= fin_from && o.no < exec.drop_op_from) {
                points.push(Point::FinalizeError { at: o.no, eintr: false });
                if matches!(o.kind, OpKind::Seek | OpKind::Flush) {
                    points.push(Point::FinalizeError { at: o.no, eintr: true });
                }
            }
            for k in [0usize, 1, 2] {
                points.push(Point::Prefilled { k });
            }
        }
    }
    let mut dg = Digest::new();
    dg.bytes(&final_image);
    let fp_base = shape_fingerprint(&WriterCase { prog: case.prog.clone(), wchunk: case.wchunk.clone(), rchunk: Chunk::Full, sink: Chunk::Full, legacy_blob_headers: false }, None);
    let mut accepted_count = 0u64;
    for pt in points {
        st.evaluations += 1;
        let what = format!("{pt:?}");
        let (image, must_reject) = match &pt {
            Point::Crash { k, t } => {
                let img = build_image(&writes, *k, *t);
                // every image whose last write precedes the start of the top-level finalize call
                let before = *k < writes_before_finalize || (*k == writes_before_finalize && *t == 0);
                if let Some((off, data)) = writes.get(*k) {
                    if *off == 0 && *t > 0 && *k >= writes_before_finalize {
                        for (lo, hi, name) in [(16usize, 24usize, "16_24"), (24, 32, "24_32"), (32, 40, "32_40")] {
                            st.probe(&format!("torn_cut_inside_header_field_{name}"), *t > lo && *t < hi && data.len() >= hi);
                        }
                    }
                }
                (img, before)
            }
            Point::DropAfter { j, s } => {
                let p = truncated(&case.prog, *j, *s);
                let c2 = new_ctx(vec![]);
                let d2 = SimDisk::new(&c2, DEV_DISK, Vec::new(), &case.wchunk);
                let _ = exec_program(&p, &c2, &d2);
                st.absorb_ctx(&c2);
                st.probe("drop_without_finalize", true);
                if s.is_some() {
                    st.probe("abandoned_subwriter_then_drop", true);
                }
                (d2.image(), true)
            }
            Point::XmlFail => {
                let mut p = case.prog.clone();
                p.end = End::FinalizeXml(XmlScript::Fail);
                let c2 = new_ctx(vec![]);
                let d2 = SimDisk::new(&c2, DEV_DISK, Vec::new(), &case.wchunk);
                let e2 = exec_program(&p, &c2, &d2);
                st.absorb_ctx(&c2);
                st.probe("transformer_failure", true);
                if e2.completed {
                    return Outcome::fail_narrowed("transformer-error-swallowed", "finalize_customized_xml returned Ok although the transformer failed", Case { point: Some(pt.clone()), ..case.clone() });
                }
                (d2.image(), true)
            }
            Point::Prefilled { k } => {
                // an older complete file: the same program with another file GUID and without its last item
                let mut old_prog = case.prog.clone();
                old_prog.guid = format!("{}-older", old_prog.guid);
                old_prog.calls.pop();
                old_prog.end = End::Finalize;
                let c0 = new_ctx(vec![]);
                let d0 = SimDisk::new(&c0, DEV_DISK, Vec::new(), &Chunk::Full);
                let e0 = exec_program(&old_prog, &c0, &d0);
                if !e0.completed {
                    continue;
                }
                let old_image = d0.image();
                let c2 = new_ctx(vec![]);
                {
                    let mut c = c2.borrow_mut();
                    c.record_ops = true;
                    c.record_writes = true;
                }
                let d2 = SimDisk::new(&c2, DEV_DISK, old_image.clone(), &case.wchunk);
                let e2 = exec_program(&case.prog, &c2, &d2);
                st.absorb_ctx(&c2);
                st.probe("device_prefilled_with_older_file", true);
                if e2.calls.first().map(|c| !c.ok).unwrap_or(true) {
                    // the writer refused the non-empty device: nothing was written
                    if d2.image() != old_image {
                        return Outcome::fail_narrowed("refused-but-modified", "E57Writer::new refused a non-empty device but modified it".to_string(), Case { point: Some(pt.clone()), ..case.clone() });
                    }
                    continue;
                }
                // the writer accepted the device: the image after the first k device writes
                let w2: Vec<(u64, Vec<u8>)> = c2.borrow().log.iter().filter(|o| o.dev == DEV_DISK && o.kind == OpKind::Write && o.moved > 0).map(|o| (o.offset, o.data.clone().unwrap_or_default())).collect();
                let mut img = old_image.clone();
                for (off, data) in w2.iter().take(*k) {
                    let off = *off as usize;
                    if img.len() < off + data.len() {
                        img.resize(off + data.len(), 0);
                    }
                    img[off..off + data.len()].copy_from_slice(data);
                }
                (img, true)
            }
            Point::FinalizeError { at, eintr } => {
                let c2 = new_ctx(vec![Fault { at: *at, kind: if *eintr { FaultKind::Interrupted } else { FaultKind::Error } }]);
                if std::env::var("E57SIM_TRACE").is_ok() {
                    c2.borrow_mut().record_ops = true;
                }
                let d2 = SimDisk::new(&c2, DEV_DISK, Vec::new(), &case.wchunk);
                let e2 = exec_program(&case.prog, &c2, &d2);
                if std::env::var("E57SIM_TRACE").is_ok() {
                    for c in &e2.calls {
                        eprintln!("call {} ops {}..{} ok={} {:?}", c.label, c.op_from, c.op_to, c.ok, c.err);
                    }
                    eprintln!("drop from {}", e2.drop_op_from);
                    for o in c2.borrow().log.iter().filter(|o| o.no + 30 > *at) {
                        eprintln!("op {} {:?} off={} want={} moved={} ok={}", o.no, o.kind, o.offset, o.want, o.moved, o.ok);
                    }
                }
                st.absorb_ctx(&c2);
                st.probe("device_error_inside_finalize", true);
                // accepted only if complete: judged like a crash image; finalize must not have reported Ok
                if e2.completed && !*eintr {
                    return Outcome::fail_narrowed("device-error-swallowed", format!("device error at op {at} inside finalize, yet finalize returned Ok"), Case { point: Some(pt.clone()), ..case.clone() });
                }
                (d2.image(), false)
            }
        };
        let narrowed = Case { point: Some(pt.clone()), ..case.clone() };
        match judge_image(&image, &reference, must_reject, &what) {
            Ok(accepted) => {
                if accepted {
                    accepted_count += 1;
                    st.probe("image_accepted_before_last_device_op", image != reference.image);
                    // second judge: an accepted image must be complete by the independent fsck
                    // (header fields included) as the completed file is
                    if reference_fsck_clean && !matches!(pt, Point::FinalizeError { .. }) {
                        let (_, problems) = refcodec::decode::analyse(&image);
                        if let Some(p) = problems.first() {
                            return Outcome::fail_narrowed(
                                "accepted-but-not-well-formed",
                                format!("{what}: the reader accepts an image that the independent fsck calls incomplete: {p}"),
                                narrowed,
                            );
                        }
                    }
                }
                // second judge: an image the independent fsck calls complete must equal the completed file's content
                if !accepted && fsck_complete(&image) && image == reference.image {
                    return Outcome::fail_narrowed("complete-rejected", format!("{what}: the completed image is rejected"), narrowed);
                }
                dg.u64(accepted as u64);
                let mut fp = Digest::new();
                fp.u64(fp_base).str(&what);
                st.fingerprint(fp.finish());
            }
            Err((class, detail)) => {
                // K1: after a device error inside finalize, PagedWriter::drop writes its buffered
                // page at whatever position the device cursor was left at (listed known finding)
                if matches!(pt, Point::FinalizeError { .. }) && class.starts_with("accepted-with-other") && listed("C15", "K1") {
                    *st.known.entry("K1".into()).or_insert(0) += 1;
                    continue;
                }
                return Outcome::fail_narrowed(class, detail, narrowed);
            }
        }
    }
    st.count("images_accepted", accepted_count);
    st.count("device_writes_in_log", writes.len() as u64);
    st.probe("short_write_schedule", case.wchunk != Chunk::Full);
    {
        let phys = u64::from_le_bytes(final_image[24..32].try_into().unwrap());
        let len = u64::from_le_bytes(final_image[32..40].try_into().unwrap());
        let end = (phys - (phys / 1024) * 4 + len) % 1020;
        st.probe("xml_ends_exactly_at_page_boundary", end == 0);
        st.probe("xml_ends_one_byte_behind_page_boundary", end == 1);
        st.probe("metadata_only_file", writes_before_finalize == 0);
        st.probe("transformer_changes_xml_length", matches!(case.prog.end, End::FinalizeXml(XmlScript::Append | XmlScript::Edit | XmlScript::Shorten)));
    }
    st.digest = dg.finish();
    if st.sample.is_none() {
        st.sample = Some(json!({"calls": exec.calls.iter().take(10).map(|c| c.label.clone()).collect::<Vec<_>>(),
            "device_writes": writes.len(), "writes_before_finalize": writes_before_finalize, "cuts": case.cuts,
            "device_chunking": case.wchunk.name(), "image_bytes": final_image.len()}));
    }
    Outcome::Held
}

impl Prop for C15 {
    type Case = Case;
    fn id(&self) -> &'static str {
        "C15"
    }
    fn meta(&self) -> Meta {
        Meta {
            level: "fault_enumeration",
            rule: "per run index one small seeded writer program (C01 generator, 0-4 items, knob on, <= 40 points, payloads <= 2.6 KiB) executed fault-free with the device write log recorded (full-page writes on even indices, seeded short writes on odd ones); every fourth program has the length of its coordinate metadata tuned so that the XML section ends exactly on, one or two bytes before or behind a page boundary, half of these hold metadata only; a quarter of the programs finalize through finalize_customized_xml with a transformer that keeps, edits, appends to or shortens the XML; then exhaustively per program: EVERY prefix k of the device writes x cut positions t in {1,16,24,25,32,33,34,40,47,48,511,512,1000,1019,1020,1021,1023 (+256,512,768 sector cuts in thorough)} of write k+1 (image(k,t) rebuilt from the log); 'run the first j calls (last one cut to its first s steps and abandoned), then drop everything' for every j, s; failing XML transformer; a hard device error at every device operation inside the top-level finalize (and ErrorKind::Interrupted at every seek and flush there); a device that still holds an older complete file when the writer is created (the writer must refuse it untouched, or no image may present the older file). Oracle per image: E57Reader::new fails, or the image lists the same point clouds and images as the completed file and every read operation (xml, listings, raw+simple iteration, all blobs) is Err or equals the completed file's result; every image whose last write precedes the start of the top-level finalize is rejected. Distinct = (program shape, crash point); every enumerated image counts as non-trivial".into(),
            assumptions: vec![
                "writes reach the device in issue order (no reordering, no loss of earlier writes)".into(),
                "a torn write leaves a byte prefix of the write on the device".into(),
            ],
            real: vec!["whole e57 crate (writer and reader paths)".into(), "roxmltree".into()],
            stub: vec!["SimDisk with write log".into(), "crash-image builder".into()],
            required_probes: vec![
                "drop_without_finalize".into(),
                "abandoned_subwriter_then_drop".into(),
                "transformer_failure".into(),
                "device_error_inside_finalize".into(),
                "device_prefilled_with_older_file".into(),
                "short_write_schedule".into(),
                "torn_cut_inside_header_field_16_24".into(),
                "torn_cut_inside_header_field_24_32".into(),
                "torn_cut_inside_header_field_32_40".into(),
                "xml_ends_exactly_at_page_boundary".into(),
                "metadata_only_file".into(),
                "transformer_changes_xml_length".into(),
            ],
        }
    }
    fn plan(&self, tier: Tier) -> Plan {
        match tier {
            Tier::Quick => Plan { runs: 192, time_box_s: None, isolation: Isolation::Threads },
            Tier::Thorough => Plan { runs: 30_000, time_box_s: Some(420), isolation: Isolation::Threads },
        }
    }
    fn generate(&self, rc: &RunCtx) -> Case {
        let mut g = Rng::stream(rc.run_seed, "cfg");
        let cfg = ProgCfg {
            max_items: 4,
            knob: Some(*g.pick(&KNOBS)),
            placement_residue: if g.chance(1, 2) { Some((g.below(255) * 4) as u32) } else { None },
            nasty_strings: false,
            ext: true,
            allow_abandon: true,
            max_points_knob_off: 0,
            custom_xml: true,
            small: true,
            big_permille: 0,
        };
        let mut prog = gen_program(rc.run_seed, &cfg);
        if rc.index % 4 == 3 {
            // the end of the XML section placed on, just before and just behind a page boundary;
            // every second of these files holds metadata only (nothing reaches the device before
            // the top-level finalize)
            if rc.index % 8 == 7 {
                prog.calls.retain(|c| !matches!(c, Call::Blob { .. } | Call::Pc { .. } | Call::Img { .. }));
            }
            let target = [0u64, 1, 1019, 2, 1018, 4, 0, 510][((rc.index / 4) % 8) as usize];
            tune_xml_end(&mut prog, target);
        }
        let mut c = Rng::stream(rc.run_seed, "chunk-dev");
        let wchunk = if rc.index % 2 == 0 { Chunk::Full } else { Chunk::Random { seed: c.next_u64(), short_permille: 150 } };
        let mut cuts: Vec<usize> = CUTS.to_vec();
        if rc.tier == Tier::Thorough {
            cuts.extend(SECTOR_CUTS);
        }
        cuts.push(1 + g.usize_below(1022));
        cuts.push(1 + g.usize_below(47));
        cuts.sort();
        cuts.dedup();
        Case { prog, wchunk, point: None, cuts }
    }
    fn execute(&self, case: &Case, st: &mut RunStats) -> Outcome<Case> {
        run_case(case, st)
    }
    fn shrink(&self, case: &Case) -> Vec<Case> {
        let mut out = Vec::new();
        // shrinking the program moves the crash points: re-enumerate on the smaller program
        for p in shrink_program(&case.prog) {
            out.push(Case { prog: p, point: None, ..case.clone() });
        }
        if case.wchunk != Chunk::Full {
            out.push(Case { wchunk: Chunk::Full, point: None, ..case.clone() });
        }
        out
    }
}
