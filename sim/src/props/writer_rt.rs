//! Shared machinery of the writer round-trip checks (C01, C02, C06, C10): execute a writer
//! program on `E57Writer<SimDisk>`, reopen the image with `E57Reader<SimDisk>` under another
//! chunk schedule, compare with the scene model.

use crate::adapter::*;
use crate::gen::*;
use crate::model::*;
use crate::program::*;
use crate::rng::{Digest, Rng};
use crate::runner::*;
use crate::simdisk::*;
use e57::{Blob, E57Reader};
use serde::{Deserialize, Serialize};
use serde_json::json;

#[derive(Clone, Debug, Serialize, Deserialize)]
pub struct WriterCase {
    pub prog: Program,
    pub wchunk: Chunk,
    pub rchunk: Chunk,
    pub sink: Chunk,
    /// C06 only: before reading back, rewrite every blob section header to the convention of
    /// older versions of this crate (section length = data length, which the reader accepts on
    /// purpose) and re-seal the pages
    #[serde(default)]
    pub legacy_blob_headers: bool,
}

pub struct Written {
    pub exec: Executed,
    pub image: Vec<u8>,
    pub ctx: Ctx,
    pub disk: SimDisk,
}

pub fn write_case(case: &WriterCase) -> Written {
    let ctx = new_ctx(Vec::new());
    let disk = SimDisk::new(&ctx, DEV_DISK, Vec::new(), &case.wchunk);
    let exec = exec_program(&case.prog, &ctx, &disk);
    let image = disk.image();
    Written { exec, image, ctx, disk }
}

/// First call whose outcome contradicts the model, as (class, detail).
pub fn call_contradiction(exec: &Executed) -> Option<(String, String)> {
    for c in &exec.calls {
        match (c.expect, c.ok) {
            (Expect::MustAccept, false) => {
                return Some((
                    "valid-call-rejected".into(),
                    format!("{} failed: {}", c.label, c.err.clone().unwrap_or_default()),
                ))
            }
            (Expect::MustReject, true) => {
                return Some(("invalid-call-accepted".into(), format!("{} was accepted but must be rejected", c.label)))
            }
            _ => {}
        }
    }
    None
}

pub struct ReadBack {
    pub file: FileRead,
    /// standalone blobs read through Blob::new(offset, length) into a chunked sink
    pub blobs: Vec<Result<Vec<u8>, String>>,
    pub pc_offsets: Vec<u64>,
    pub blob_offsets: Vec<u64>,
}

/// Open the image with the crate's reader on a fresh device and read everything.
pub fn read_back(image: &[u8], ctx: &Ctx, rchunk: &Chunk, sink: &Chunk, blob_descs: &[(u64, u64)]) -> Result<ReadBack, String> {
    let disk = SimDisk::new(ctx, DEV_DISK2, image.to_vec(), rchunk);
    let mut r = E57Reader::new(disk).map_err(|e| format!("E57Reader::new: {e}"))?;
    let pcs = r.pointclouds();
    let pc_offsets = pcs.iter().map(|p| p.file_offset).collect();
    let mut blob_offsets: Vec<u64> = blob_descs.iter().map(|b| b.0).collect();
    for img in r.images() {
        let d = img_desc_from_e57(&img);
        for (b, m) in [d.visual_blobs, d.projection_blobs].into_iter().flatten() {
            blob_offsets.push(b.offset);
            if let Some(m) = m {
                blob_offsets.push(m.offset);
            }
        }
    }
    let file = read_all(&mut r);
    let mut blobs = Vec::new();
    for (i, (off, len)) in blob_descs.iter().enumerate() {
        let mut s = PipeSink::new(ctx, DEV_PIPE + 100 + (i % 50) as u8, sink);
        let res = match read_blob(&mut r, &Blob::new(*off, *len), &mut s) {
            Ok(n) => {
                if n != *len || s.data.len() as u64 != *len {
                    Err(format!("blob #{i}: descriptor length {len}, blob() returned {n}, sink received {} bytes", s.data.len()))
                } else {
                    Ok(s.data)
                }
            }
            Err(e) => Err(e),
        };
        blobs.push(res);
    }
    Ok(ReadBack { file, blobs, pc_offsets, blob_offsets })
}

pub fn compare_points(got: &FileRead, want: &FileRead) -> Option<(String, String)> {
    if got.pcs.len() != want.pcs.len() {
        return Some(("pc-count".into(), format!("{} point clouds listed, {} finalized", got.pcs.len(), want.pcs.len())));
    }
    for (i, (g, w)) in got.pcs.iter().zip(want.pcs.iter()).enumerate() {
        if g.guid != w.guid {
            return Some(("pc-guid".into(), format!("point cloud {i}: guid {:?}, expected {:?}", g.guid, w.guid)));
        }
        if g.proto != w.proto {
            let idx = g.proto.iter().zip(w.proto.iter()).position(|(a, b)| a != b);
            let d = match idx {
                Some(k) => format!("record {k}: got {:?}, expected {:?}", g.proto[k], w.proto[k]),
                None => format!("{} records instead of {}", g.proto.len(), w.proto.len()),
            };
            return Some(("prototype".into(), format!("point cloud {i}: prototype differs: {d}")));
        }
        if g.records != w.records {
            return Some(("record-count".into(), format!("point cloud {i}: records={} but {} points were added", g.records, w.records)));
        }
        match (&g.points, &w.points) {
            (Ok(gp), Ok(wp)) => {
                if let Some(d) = diff_points(gp, wp) {
                    return Some(("points".into(), format!("point cloud {i}: {d}")));
                }
            }
            (Err(e), _) => return Some(("points-read-error".into(), format!("point cloud {i}: raw iterator failed: {e}"))),
            _ => {}
        }
    }
    None
}

pub fn compare_blobs(rb: &ReadBack, want: &Expected) -> Option<(String, String)> {
    if rb.blobs.len() != want.blobs.len() {
        return Some(("blob-count".into(), format!("{} blob descriptors for {} blobs", rb.blobs.len(), want.blobs.len())));
    }
    for (i, (g, w)) in rb.blobs.iter().zip(want.blobs.iter()).enumerate() {
        match g {
            Ok(bytes) => {
                if bytes != w {
                    let pos = bytes.iter().zip(w.iter()).position(|(a, b)| a != b);
                    return Some((
                        "blob-bytes".into(),
                        format!("blob {i}: {} bytes returned for {} written, first difference at {pos:?}", bytes.len(), w.len()),
                    ));
                }
            }
            Err(e) => return Some(("blob-read-error".into(), format!("blob {i} ({} bytes): {e}", w.len()))),
        }
    }
    if rb.file.images.len() != want.file.images.len() {
        return Some(("image-count".into(), format!("{} images listed, {} finalized", rb.file.images.len(), want.file.images.len())));
    }
    for (i, (g, w)) in rb.file.images.iter().zip(want.file.images.iter()).enumerate() {
        if g.guid != w.guid {
            return Some(("image-guid".into(), format!("image {i}: guid {:?}, expected {:?}", g.guid, w.guid)));
        }
        for (what, gr, wr) in [("visual reference", &g.visual, &w.visual), ("projection", &g.projection, &w.projection)] {
            match (gr, wr) {
                (None, None) => {}
                (Some(gr), Some(wr)) => {
                    if gr.kind != wr.kind || gr.format != wr.format {
                        return Some((
                            "image-rep-kind".into(),
                            format!("image {i} {what}: {:?}/{:?} instead of {:?}/{:?}", gr.kind, gr.format, wr.kind, wr.format),
                        ));
                    }
                    if gr.props != wr.props {
                        return Some(("image-props".into(), format!("image {i} {what}: properties {:?}, expected {:?}", gr.props, wr.props)));
                    }
                    let wd = wr.data.as_ref().map(|d| d.as_slice()).unwrap_or(&[]);
                    if gr.data_len != wd.len() as u64 {
                        return Some(("image-blob-length".into(), format!("image {i} {what}: descriptor length {} for {} bytes", gr.data_len, wd.len())));
                    }
                    match &gr.data {
                        Ok(d) if d == wd => {}
                        Ok(d) => return Some(("image-blob-bytes".into(), format!("image {i} {what}: {} bytes returned, other than the {} written", d.len(), wd.len()))),
                        Err(e) => return Some(("image-blob-read-error".into(), format!("image {i} {what}: {e}"))),
                    }
                    match (&gr.mask, &wr.mask) {
                        (None, None) => {}
                        (Some(gm), Some(Ok(wm))) => match gm {
                            Ok(d) if d == wm => {}
                            Ok(d) => return Some(("image-mask-bytes".into(), format!("image {i} {what}: mask {} bytes returned, other than the {} written", d.len(), wm.len()))),
                            Err(e) => return Some(("image-mask-read-error".into(), format!("image {i} {what}: mask: {e}"))),
                        },
                        _ => return Some(("image-mask-presence".into(), format!("image {i} {what}: mask presence differs"))),
                    }
                }
                _ => return Some(("image-rep-presence".into(), format!("image {i}: {what} presence differs"))),
            }
        }
    }
    None
}

pub fn compare_metadata(got: &FileRead, want: &FileRead) -> Option<(String, String)> {
    if got.guid != want.guid {
        return Some(("meta-file-guid".into(), format!("file guid {:?}, expected {:?}", got.guid, want.guid)));
    }
    if got.coord_meta != want.coord_meta {
        return Some(("meta-coordinate".into(), format!("coordinateMetadata {:?}, expected {:?}", got.coord_meta, want.coord_meta)));
    }
    if got.creation != want.creation {
        return Some(("meta-creation".into(), format!("creationDateTime {:?}, expected {:?}", got.creation, want.creation)));
    }
    {
        let (mut a, mut b) = (got.extensions.clone(), want.extensions.clone());
        a.sort();
        b.sort();
        if a != b {
            return Some(("meta-extensions".into(), format!("extensions {:?}, expected {:?}", got.extensions, want.extensions)));
        }
    }
    for (i, (g, w)) in got.pcs.iter().zip(want.pcs.iter()).enumerate() {
        if let Some(d) = diff_pc_meta(&g.meta, &w.meta) {
            return Some(("meta-pointcloud".into(), format!("point cloud {i}: {d}")));
        }
    }
    for (i, (g, w)) in got.images.iter().zip(want.images.iter()).enumerate() {
        if let Some(d) = diff_img_meta(&g.meta, &w.meta) {
            return Some(("meta-image".into(), format!("image {i}: {d}")));
        }
    }
    None
}

pub fn shape_fingerprint(case: &WriterCase, rb: Option<&ReadBack>) -> u64 {
    let mut d = Digest::new();
    for c in &case.prog.calls {
        match c {
            Call::RegisterExt { .. } => {
                d.u64(1);
            }
            Call::CoordMeta(_) => {
                d.u64(2);
            }
            Call::Creation(_) => {
                d.u64(3);
            }
            Call::Blob { data, pipe, fail_after } => {
                d.u64(fail_after.map(|k| 40 + (k % 4) as u64).unwrap_or(4));
                d.u64((data.len % 1020) as u64).u64((data.len / 1020).min(4) as u64).str(pipe.name());
            }
            Call::Pc { proto, steps, end, .. } => {
                d.u64(5).u64(*end as u64);
                for r in proto {
                    d.u64(r.dt.kind() as u64).u64(r.dt.bits() as u64);
                    if let Name::Std(i) = r.name {
                        d.u64(i as u64);
                    } else {
                        d.u64(99);
                    }
                }
                let n: usize = steps
                    .iter()
                    .map(|s| match s {
                        PcStep::Points { n, .. } => *n,
                        PcStep::Point(_) => 1,
                        _ => 0,
                    })
                    .sum();
                d.u64(n.min(64) as u64).u64((n / 64).min(16) as u64);
            }
            Call::Img { steps, end, .. } => {
                d.u64(6).u64(*end as u64);
                for s in steps {
                    if let ImgStep::Rep(r) = s {
                        d.u64(r.kind as u64).u64((r.data.len % 1020) as u64).u64(r.mask.as_ref().map(|m| m.len % 1020).unwrap_or(9999) as u64);
                    }
                }
            }
        }
    }
    d.u64(case.prog.knob.unwrap_or(0) as u64);
    d.str(case.wchunk.name()).str(case.rchunk.name());
    if let Some(rb) = rb {
        for o in rb.pc_offsets.iter().chain(rb.blob_offsets.iter()) {
            d.u64(o % 1024);
        }
    }
    d.finish()
}

pub fn note_placement(st: &mut RunStats, rb: &ReadBack) {
    for o in &rb.pc_offsets {
        let page_off = o % 1024;
        st.set_add("section_start_residue.pointcloud", page_off);
        st.probe("cv_header_straddles_page", page_off + 32 > 1020);
        st.probe("cv_data_offset_in_next_page", page_off + 32 >= 1020);
    }
    for o in &rb.blob_offsets {
        let page_off = o % 1024;
        st.set_add("section_start_residue.blob", page_off);
        st.probe("blob_header_straddles_page", page_off + 16 > 1020);
    }
}

pub fn sample_of(case: &WriterCase, exec: &Executed, image_len: usize) -> serde_json::Value {
    let labels: Vec<String> = exec.calls.iter().take(12).map(|c| format!("{} -> {}", c.label, if c.ok { "Ok" } else { "Err" })).collect();
    json!({
        "calls": labels,
        "n_calls": exec.calls.len(),
        "knob": case.prog.knob,
        "device_chunking": case.wchunk.name(),
        "reader_chunking": case.rchunk.name(),
        "image_bytes": image_len,
    })
}

pub fn draw_chunks(run_seed: u64) -> (Chunk, Chunk, Chunk) {
    let mut c = Rng::stream(run_seed, "chunk-dev");
    (Chunk::draw(&mut c), Chunk::draw(&mut c), Chunk::draw(&mut c))
}

pub fn shrink_writer_case(case: &WriterCase) -> Vec<WriterCase> {
    let mut out: Vec<WriterCase> = shrink_program(&case.prog)
        .into_iter()
        .map(|p| WriterCase { prog: p, ..case.clone() })
        .collect();
    if case.wchunk != Chunk::Full {
        out.push(WriterCase { wchunk: Chunk::Full, ..case.clone() });
    }
    if case.rchunk != Chunk::Full {
        out.push(WriterCase { rchunk: Chunk::Full, ..case.clone() });
    }
    if case.sink != Chunk::Full {
        out.push(WriterCase { sink: Chunk::Full, ..case.clone() });
    }
    out
}

pub const KNOBS: [usize; 7] = [1, 2, 3, 7, 8, 9, 50];

/// Rewrite the section-length field of every blob section (standalone and image/mask blobs) to
/// the data length, the convention written by cry-inc/e57 up to 0.11.10, and re-seal.
pub fn to_legacy_blob_headers(image: &[u8], blob_descs: &[(u64, u64)]) -> Option<Vec<u8>> {
    let ctx = new_ctx(vec![]);
    let d = SimDisk::new(&ctx, DEV_DISK3, image.to_vec(), &Chunk::Full);
    let r = E57Reader::new(d).ok()?;
    let mut all: Vec<(u64, u64)> = blob_descs.to_vec();
    for img in r.images() {
        let desc = img_desc_from_e57(&img);
        for (b, m) in [desc.visual_blobs, desc.projection_blobs].into_iter().flatten() {
            all.push((b.offset, b.length));
            if let Some(m) = m {
                all.push((m.offset, m.length));
            }
        }
    }
    let mut out = image.to_vec();
    for (off, len) in all {
        // the 8 length bytes start at logical offset + 8; translate each byte on its own
        let logical = crate::refcodec::page::to_logical(off)?;
        let bytes = len.to_le_bytes();
        for (k, b) in bytes.iter().enumerate() {
            let phys = crate::refcodec::page::to_phys(logical + 8 + k as u64) as usize;
            if phys < out.len() {
                out[phys] = *b;
            }
        }
    }
    crate::refcodec::page::reseal(&mut out);
    Some(out)
}
