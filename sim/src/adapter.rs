//! Conversions between the plain-data model and the e57 crate's public types, and helpers that
//! drive the crate's reader.

use crate::model::*;
use e57::{
    Blob, ColorLimits, DateTime, E57Reader, Image, ImageFormat, IntensityLimits, PointCloud, Projection, Quaternion,
    Record, RecordDataType, RecordName, RecordValue, Transform, Translation,
};
use std::io::{Read, Seek, Write};

pub fn name_to_e57(n: &Name) -> RecordName {
    match n {
        Name::Std(i) => match *i {
            0 => RecordName::CartesianX,
            1 => RecordName::CartesianY,
            2 => RecordName::CartesianZ,
            3 => RecordName::CartesianInvalidState,
            4 => RecordName::SphericalRange,
            5 => RecordName::SphericalAzimuth,
            6 => RecordName::SphericalElevation,
            7 => RecordName::SphericalInvalidState,
            8 => RecordName::Intensity,
            9 => RecordName::IsIntensityInvalid,
            10 => RecordName::ColorRed,
            11 => RecordName::ColorGreen,
            12 => RecordName::ColorBlue,
            13 => RecordName::IsColorInvalid,
            14 => RecordName::RowIndex,
            15 => RecordName::ColumnIndex,
            16 => RecordName::ReturnCount,
            17 => RecordName::ReturnIndex,
            18 => RecordName::TimeStamp,
            _ => RecordName::IsTimeStampInvalid,
        },
        Name::Ext { ns, name } => RecordName::Unknown {
            namespace: ns.clone(),
            name: name.clone(),
        },
    }
}

pub fn name_from_e57(n: &RecordName) -> Name {
    let i = match n {
        RecordName::CartesianX => 0,
        RecordName::CartesianY => 1,
        RecordName::CartesianZ => 2,
        RecordName::CartesianInvalidState => 3,
        RecordName::SphericalRange => 4,
        RecordName::SphericalAzimuth => 5,
        RecordName::SphericalElevation => 6,
        RecordName::SphericalInvalidState => 7,
        RecordName::Intensity => 8,
        RecordName::IsIntensityInvalid => 9,
        RecordName::ColorRed => 10,
        RecordName::ColorGreen => 11,
        RecordName::ColorBlue => 12,
        RecordName::IsColorInvalid => 13,
        RecordName::RowIndex => 14,
        RecordName::ColumnIndex => 15,
        RecordName::ReturnCount => 16,
        RecordName::ReturnIndex => 17,
        RecordName::TimeStamp => 18,
        RecordName::IsTimeStampInvalid => 19,
        RecordName::Unknown { namespace, name } => {
            return Name::Ext {
                ns: namespace.clone(),
                name: name.clone(),
            }
        }
    };
    Name::Std(i)
}

pub fn dt_to_e57(d: &DType) -> RecordDataType {
    match d {
        DType::Single { min, max } => RecordDataType::Single {
            min: min.map(|b| b.f()),
            max: max.map(|b| b.f()),
        },
        DType::Double { min, max } => RecordDataType::Double {
            min: min.map(|b| b.f()),
            max: max.map(|b| b.f()),
        },
        DType::Int { min, max } => RecordDataType::Integer { min: *min, max: *max },
        DType::Scaled { min, max, scale, offset } => RecordDataType::ScaledInteger {
            min: *min,
            max: *max,
            scale: scale.f(),
            offset: offset.f(),
        },
    }
}

pub fn dt_from_e57(d: &RecordDataType) -> DType {
    match d {
        RecordDataType::Single { min, max } => DType::Single {
            min: min.map(B32::of),
            max: max.map(B32::of),
        },
        RecordDataType::Double { min, max } => DType::Double {
            min: min.map(B64::of),
            max: max.map(B64::of),
        },
        RecordDataType::Integer { min, max } => DType::Int { min: *min, max: *max },
        RecordDataType::ScaledInteger { min, max, scale, offset } => DType::Scaled {
            min: *min,
            max: *max,
            scale: B64::of(*scale),
            offset: B64::of(*offset),
        },
    }
}

pub fn rec_to_e57(r: &Rec) -> Record {
    Record {
        name: name_to_e57(&r.name),
        data_type: dt_to_e57(&r.dt),
    }
}

pub fn rec_from_e57(r: &Record) -> Rec {
    Rec {
        name: name_from_e57(&r.name),
        dt: dt_from_e57(&r.data_type),
    }
}

pub fn val_to_e57(v: &Val) -> RecordValue {
    match v {
        Val::S(b) => RecordValue::Single(f32::from_bits(*b)),
        Val::D(b) => RecordValue::Double(f64::from_bits(*b)),
        Val::I(i) => RecordValue::Integer(*i),
        Val::SI(i) => RecordValue::ScaledInteger(*i),
    }
}

pub fn val_from_e57(v: &RecordValue) -> Val {
    match v {
        RecordValue::Single(f) => Val::S(f.to_bits()),
        RecordValue::Double(f) => Val::D(f.to_bits()),
        RecordValue::Integer(i) => Val::I(*i),
        RecordValue::ScaledInteger(i) => Val::SI(*i),
    }
}

pub fn lim_to_e57(l: &Lim) -> RecordValue {
    match l {
        Lim::I(i) => RecordValue::Integer(*i),
        Lim::SI(i) => RecordValue::ScaledInteger(*i),
        Lim::S(b) => RecordValue::Single(b.f()),
        Lim::D(b) => RecordValue::Double(b.f()),
    }
}

pub fn lim_from_e57(v: &RecordValue) -> Lim {
    match v {
        RecordValue::Integer(i) => Lim::I(*i),
        RecordValue::ScaledInteger(i) => Lim::SI(*i),
        RecordValue::Single(f) => Lim::S(B32::of(*f)),
        RecordValue::Double(f) => Lim::D(B64::of(*f)),
    }
}

pub fn ilim_to_e57(l: &ILim) -> IntensityLimits {
    IntensityLimits {
        intensity_min: l.min.as_ref().map(lim_to_e57),
        intensity_max: l.max.as_ref().map(lim_to_e57),
    }
}

pub fn ilim_from_e57(l: &IntensityLimits) -> ILim {
    ILim {
        min: l.intensity_min.as_ref().map(lim_from_e57),
        max: l.intensity_max.as_ref().map(lim_from_e57),
    }
}

pub fn clim_to_e57(l: &CLim) -> ColorLimits {
    ColorLimits {
        red_min: l.0[0].as_ref().map(lim_to_e57),
        red_max: l.0[1].as_ref().map(lim_to_e57),
        green_min: l.0[2].as_ref().map(lim_to_e57),
        green_max: l.0[3].as_ref().map(lim_to_e57),
        blue_min: l.0[4].as_ref().map(lim_to_e57),
        blue_max: l.0[5].as_ref().map(lim_to_e57),
    }
}

pub fn clim_from_e57(l: &ColorLimits) -> CLim {
    CLim([
        l.red_min.as_ref().map(lim_from_e57),
        l.red_max.as_ref().map(lim_from_e57),
        l.green_min.as_ref().map(lim_from_e57),
        l.green_max.as_ref().map(lim_from_e57),
        l.blue_min.as_ref().map(lim_from_e57),
        l.blue_max.as_ref().map(lim_from_e57),
    ])
}

pub fn dtm_to_e57(d: &DT) -> DateTime {
    DateTime {
        gps_time: d.gps.f(),
        atomic_reference: d.atomic,
    }
}

pub fn dtm_from_e57(d: &DateTime) -> DT {
    DT {
        gps: B64::of(d.gps_time),
        atomic: d.atomic_reference,
    }
}

pub fn xform_to_e57(x: &Xform) -> Transform {
    Transform {
        rotation: Quaternion {
            w: x.rot[0].f(),
            x: x.rot[1].f(),
            y: x.rot[2].f(),
            z: x.rot[3].f(),
        },
        translation: Translation {
            x: x.tr[0].f(),
            y: x.tr[1].f(),
            z: x.tr[2].f(),
        },
    }
}

pub fn xform_from_e57(t: &Transform) -> Xform {
    Xform {
        rot: [
            B64::of(t.rotation.w),
            B64::of(t.rotation.x),
            B64::of(t.rotation.y),
            B64::of(t.rotation.z),
        ],
        tr: [B64::of(t.translation.x), B64::of(t.translation.y), B64::of(t.translation.z)],
    }
}

pub fn pc_desc_from_e57(pc: &PointCloud) -> PcRead {
    let b = |v: Option<f64>| v.map(B64::of);
    PcRead {
        guid: pc.guid.clone(),
        proto: pc.prototype.iter().map(rec_from_e57).collect(),
        records: pc.records,
        meta: PcMeta {
            name: pc.name.clone(),
            description: pc.description.clone(),
            original_guids: pc.original_guids.clone(),
            transform: pc.transform.as_ref().map(xform_from_e57),
            acq_start: pc.acquisition_start.as_ref().map(dtm_from_e57),
            acq_end: pc.acquisition_end.as_ref().map(dtm_from_e57),
            sensor_vendor: pc.sensor_vendor.clone(),
            sensor_model: pc.sensor_model.clone(),
            sensor_serial: pc.sensor_serial.clone(),
            sensor_hw: pc.sensor_hw_version.clone(),
            sensor_sw: pc.sensor_sw_version.clone(),
            sensor_fw: pc.sensor_fw_version.clone(),
            temperature: b(pc.temperature),
            humidity: b(pc.humidity),
            pressure: b(pc.atmospheric_pressure),
            intensity_limits: pc.intensity_limits.as_ref().map(ilim_from_e57),
            color_limits: pc.color_limits.as_ref().map(clim_from_e57),
        },
        bounds: Bounds {
            cartesian: pc
                .cartesian_bounds
                .as_ref()
                .map(|c| [b(c.x_min), b(c.x_max), b(c.y_min), b(c.y_max), b(c.z_min), b(c.z_max)]),
            spherical: pc.spherical_bounds.as_ref().map(|s| {
                [
                    b(s.range_min),
                    b(s.range_max),
                    b(s.elevation_min),
                    b(s.elevation_max),
                    b(s.azimuth_start),
                    b(s.azimuth_end),
                ]
            }),
            index: pc
                .index_bounds
                .as_ref()
                .map(|i| [i.row_min, i.row_max, i.column_min, i.column_max, i.return_min, i.return_max]),
        },
        points: Err("not read".into()),
    }
}

fn fmt_from_e57(f: &ImageFormat) -> Format {
    match f {
        ImageFormat::Png => Format::Png,
        ImageFormat::Jpeg => Format::Jpeg,
    }
}

pub fn fmt_to_e57(f: Format) -> ImageFormat {
    match f {
        Format::Png => ImageFormat::Png,
        Format::Jpeg => ImageFormat::Jpeg,
    }
}

/// Descriptor of an image with the blob descriptors it points to (data, mask) per representation.
pub struct ImgDesc {
    pub read: ImgRead,
    pub visual_blobs: Option<(Blob, Option<Blob>)>,
    pub projection_blobs: Option<(Blob, Option<Blob>)>,
}

pub fn img_desc_from_e57(img: &Image) -> ImgDesc {
    let rep = |kind: RepKind, format: &ImageFormat, props: RepProps, data: &Blob, mask: &Option<Blob>| RepRead {
        kind,
        format: fmt_from_e57(format),
        props,
        data_len: data.length,
        data: Err("not read".into()),
        mask_len: mask.as_ref().map(|m| m.length),
        mask: mask.as_ref().map(|_| Err("not read".into())),
    };
    let mut visual = None;
    let mut visual_blobs = None;
    if let Some(v) = &img.visual_reference {
        visual = Some(rep(
            RepKind::Visual,
            &v.blob.format,
            RepProps {
                width: v.properties.width,
                height: v.properties.height,
                floats: vec![],
            },
            &v.blob.data,
            &v.mask,
        ));
        visual_blobs = Some((v.blob.data.clone(), v.mask.clone()));
    }
    let mut projection = None;
    let mut projection_blobs = None;
    match &img.projection {
        Some(Projection::Pinhole(p)) => {
            let pr = &p.properties;
            projection = Some(rep(
                RepKind::Pinhole,
                &p.blob.format,
                RepProps {
                    width: pr.width,
                    height: pr.height,
                    floats: vec![
                        B64::of(pr.focal_length),
                        B64::of(pr.pixel_width),
                        B64::of(pr.pixel_height),
                        B64::of(pr.principal_x),
                        B64::of(pr.principal_y),
                    ],
                },
                &p.blob.data,
                &p.mask,
            ));
            projection_blobs = Some((p.blob.data.clone(), p.mask.clone()));
        }
        Some(Projection::Spherical(p)) => {
            let pr = &p.properties;
            projection = Some(rep(
                RepKind::Spherical,
                &p.blob.format,
                RepProps {
                    width: pr.width,
                    height: pr.height,
                    floats: vec![B64::of(pr.pixel_width), B64::of(pr.pixel_height)],
                },
                &p.blob.data,
                &p.mask,
            ));
            projection_blobs = Some((p.blob.data.clone(), p.mask.clone()));
        }
        Some(Projection::Cylindrical(p)) => {
            let pr = &p.properties;
            projection = Some(rep(
                RepKind::Cylindrical,
                &p.blob.format,
                RepProps {
                    width: pr.width,
                    height: pr.height,
                    floats: vec![
                        B64::of(pr.radius),
                        B64::of(pr.principal_y),
                        B64::of(pr.pixel_width),
                        B64::of(pr.pixel_height),
                    ],
                },
                &p.blob.data,
                &p.mask,
            ));
            projection_blobs = Some((p.blob.data.clone(), p.mask.clone()));
        }
        None => {}
    }
    ImgDesc {
        read: ImgRead {
            guid: img.guid.clone(),
            meta: ImgMeta {
                name: img.name.clone(),
                description: img.description.clone(),
                pointcloud_guid: img.pointcloud_guid.clone(),
                transform: img.transform.as_ref().map(xform_from_e57),
                acquisition: img.acquisition.as_ref().map(dtm_from_e57),
                sensor_vendor: img.sensor_vendor.clone(),
                sensor_model: img.sensor_model.clone(),
                sensor_serial: img.sensor_serial.clone(),
            },
            visual,
            projection,
        },
        visual_blobs,
        projection_blobs,
    }
}

/// Drive the raw iterator to its first Err or None (both iterators return Some(Err) forever
/// after an error, so an unconditional collect would never end).
pub fn read_raw<T: Read + Seek>(r: &mut E57Reader<T>, pc: &PointCloud, take: Option<usize>) -> Result<Vec<Point>, String> {
    let it = r.pointcloud_raw(pc).map_err(|e| format!("open: {e}"))?;
    let mut out = Vec::new();
    for item in it {
        if let Some(t) = take {
            if out.len() >= t {
                break;
            }
        }
        match item {
            Ok(vals) => out.push(vals.iter().map(val_from_e57).collect()),
            Err(e) => return Err(format!("after {} points: {e}", out.len())),
        }
    }
    Ok(out)
}

pub fn read_blob<T: Read + Seek>(r: &mut E57Reader<T>, blob: &Blob, sink: &mut dyn Write) -> Result<u64, String> {
    r.blob(blob, sink).map_err(|e| e.to_string())
}

/// Everything the crate's reader reports about an open file, all points and blobs read with
/// benign sinks (Vec). Errors of individual operations are recorded in place.
pub fn read_all<T: Read + Seek>(r: &mut E57Reader<T>) -> FileRead {
    let mut out = FileRead {
        guid: r.guid().to_string(),
        coord_meta: r.coordinate_metadata().map(|s| s.to_string()),
        creation: r.creation().as_ref().map(dtm_from_e57),
        extensions: r.extensions().iter().map(|e| (e.namespace.clone(), e.url.clone())).collect(),
        library_version: r.library_version().map(|s| s.to_string()),
        pcs: Vec::new(),
        images: Vec::new(),
        xml: r.xml().to_string(),
    };
    for pc in r.pointclouds() {
        let mut d = pc_desc_from_e57(&pc);
        d.points = read_raw(r, &pc, None);
        out.pcs.push(d);
    }
    for img in r.images() {
        let mut d = img_desc_from_e57(&img);
        let mut fill = |rep: &mut Option<RepRead>, blobs: &Option<(Blob, Option<Blob>)>, r: &mut E57Reader<T>| {
            if let (Some(rep), Some((data, mask))) = (rep.as_mut(), blobs.as_ref()) {
                let mut buf = Vec::new();
                rep.data = match read_blob(r, data, &mut buf) {
                    Ok(n) if n as usize == buf.len() => Ok(buf),
                    Ok(n) => Err(format!("blob() returned {n} but wrote {} bytes", buf.len())),
                    Err(e) => Err(e),
                };
                if let Some(m) = mask {
                    let mut buf = Vec::new();
                    rep.mask = Some(match read_blob(r, m, &mut buf) {
                        Ok(n) if n as usize == buf.len() => Ok(buf),
                        Ok(n) => Err(format!("blob() returned {n} but wrote {} bytes", buf.len())),
                        Err(e) => Err(e),
                    });
                }
            }
        };
        fill(&mut d.read.visual, &d.visual_blobs, r);
        fill(&mut d.read.projection, &d.projection_blobs, r);
        out.images.push(d.read);
    }
    out
}
