//! Writer programs: explicit lists of E57Writer API calls, their executor against
//! `E57Writer<SimDisk>`, and the scene model that says which calls must succeed, which must be
//! rejected, and what the finished file must contain.

use crate::adapter::*;
use crate::gen::gen_points;
use crate::model::*;
use crate::simdisk::*;
use e57::{
    CylindricalImageProperties, E57Writer, Extension, PinholeImageProperties, SphericalImageProperties,
    VisualReferenceImageProperties,
};
use serde::{Deserialize, Serialize};
use std::io::Read;

#[derive(Clone, Debug, PartialEq, Serialize, Deserialize)]
pub enum PcField {
    Name(Option<String>),
    Description(Option<String>),
    OriginalGuids(Option<Vec<String>>),
    Transform(Option<Xform>),
    AcqStart(Option<DT>),
    AcqEnd(Option<DT>),
    SensorVendor(Option<String>),
    SensorModel(Option<String>),
    SensorSerial(Option<String>),
    SensorHw(Option<String>),
    SensorSw(Option<String>),
    SensorFw(Option<String>),
    Temperature(Option<B64>),
    Humidity(Option<B64>),
    Pressure(Option<B64>),
    IntensityLimits(Option<ILim>),
    ColorLimits(Option<CLim>),
}

#[derive(Clone, Debug, PartialEq, Serialize, Deserialize)]
pub enum PcStep {
    Set(PcField),
    /// one add_point call with explicit values (may be invalid on purpose)
    Point(Point),
    /// n add_point calls with valid values generated from (prototype, seed)
    Points { n: usize, seed: u64 },
}

#[derive(Clone, Copy, Debug, PartialEq, Serialize, Deserialize)]
pub enum SubEnd {
    Finalize,
    Abandon,
}

#[derive(Clone, Debug, PartialEq, Serialize, Deserialize)]
pub enum ImgField {
    Name(String),
    Description(String),
    PcGuid(String),
    Transform(Xform),
    Acquisition(DT),
    SensorVendor(String),
    SensorModel(String),
    SensorSerial(String),
}

#[derive(Clone, Debug, PartialEq, Serialize, Deserialize)]
pub struct RepSpec {
    pub kind: RepKind,
    pub format: Format,
    pub data: Bytes,
    pub mask: Option<Bytes>,
    pub props: RepProps,
    pub pipe: Chunk,
}

#[derive(Clone, Debug, PartialEq, Serialize, Deserialize)]
pub enum ImgStep {
    Set(ImgField),
    Rep(RepSpec),
}

#[derive(Clone, Debug, PartialEq, Serialize, Deserialize)]
pub enum Call {
    RegisterExt { ns: String, url: String },
    CoordMeta(Option<String>),
    Creation(Option<DT>),
    /// `fail_after`: the source hands out that many bytes (at most the data), then its next
    /// read reports an error: the call must fail, and the program goes on with the same writer
    Blob {
        data: Bytes,
        pipe: Chunk,
        #[serde(default)]
        fail_after: Option<usize>,
    },
    Pc { guid: String, proto: Vec<Rec>, steps: Vec<PcStep>, end: SubEnd },
    Img { guid: String, steps: Vec<ImgStep>, end: SubEnd },
}

/// A blob source whose data ends in an error instead of end-of-file.
pub struct FailingSrc {
    pub inner: PipeSrc,
}

impl std::io::Read for FailingSrc {
    fn read(&mut self, buf: &mut [u8]) -> std::io::Result<usize> {
        match self.inner.read(buf) {
            Ok(0) if !buf.is_empty() => Err(std::io::Error::new(std::io::ErrorKind::Other, "simulated source failure")),
            other => other,
        }
    }
}

#[derive(Clone, Debug, PartialEq, Serialize, Deserialize)]
pub enum XmlScript {
    Identity,
    /// the transformer returns an error
    Fail,
    /// inserts a comment and an element in a foreign namespace before the end of the root
    Edit,
    /// appends a comment behind the end tag of the root (the document only grows at its end)
    Append,
    /// returns a shorter document: white space at the very end is removed
    Shorten,
}

#[derive(Clone, Debug, PartialEq, Serialize, Deserialize)]
pub enum End {
    Finalize,
    FinalizeXml(XmlScript),
    /// drop the writer without the top-level finalize
    DropOnly,
}

/// What the caller does when a call fails that should have succeeded.
#[derive(Clone, Copy, Debug, PartialEq, Eq, Default, Serialize, Deserialize)]
pub enum OnError {
    /// the `?` idiom: stop and drop everything
    #[default]
    Stop,
    /// give up the point cloud or image the failed call belongs to, go on with the next top-level
    /// call and finalize at the end
    Continue,
    /// like Stop, but a failed finalize (of a point cloud or the top-level one) is called a second time
    RetryFinalize,
}

#[derive(Clone, Debug, PartialEq, Serialize, Deserialize)]
pub struct Program {
    pub guid: String,
    pub calls: Vec<Call>,
    pub end: End,
    /// cap for points per data packet (hook); None = the library's own capacity
    pub knob: Option<usize>,
    #[serde(default)]
    pub on_error: OnError,
}

#[derive(Clone, Copy, Debug, PartialEq, Eq, Serialize, Deserialize)]
pub enum Expect {
    MustAccept,
    MustReject,
    /// the documentation is silent: either way, but if accepted the file must read back
    Unspec,
}

#[derive(Clone, Debug)]
pub struct CallRec {
    pub label: String,
    /// index into Program::calls (usize::MAX for new/finalize)
    pub call_index: usize,
    pub op_from: u64,
    pub op_to: u64,
    pub ok: bool,
    pub err: Option<String>,
    pub expect: Expect,
}

/// What the finished file must contain (points, blobs, metadata as handed to the writer).
#[derive(Clone, Debug, Default)]
pub struct Expected {
    pub file: FileRead,
    /// standalone blobs in add_blob order
    pub blobs: Vec<Vec<u8>>,
}

pub struct Executed {
    pub calls: Vec<CallRec>,
    /// top-level finalize returned Ok
    pub completed: bool,
    /// first call that failed although the model expected success (program stopped there)
    pub stopped_at: Option<usize>,
    /// device operation number at which the top-level finalize call started
    pub finalize_op_from: Option<u64>,
    /// device operation number at which dropping the writer started
    pub drop_op_from: u64,
    pub expected: Expected,
    /// descriptors returned by add_blob: (offset, length)
    pub blob_descs: Vec<(u64, u64)>,
    /// XML handed to / returned by the transformer, if it ran
    pub xml_out: Option<String>,
    /// device had unflushed writes at the moment the top-level finalize returned
    pub dirty_after_finalize: bool,
    /// first call that failed although the model expected success (whatever the caller did then)
    pub first_failure: Option<usize>,
}

pub fn valid_ext_name(name: &str) -> bool {
    !name.is_empty()
        && !name.to_lowercase().starts_with("xml")
        && name.chars().all(|c| c.is_ascii_alphanumeric() || c == '_' || c == '-')
}

/// A name the crate's rule accepts but XML does not (prefix or tag starting with a digit or '-').
pub fn non_ncname_start(name: &str) -> bool {
    name.chars().next().map(|c| c.is_ascii_digit() || c == '-').unwrap_or(false)
}

fn has(proto: &[Rec], i: u8) -> bool {
    proto.iter().any(|r| r.name == Name::Std(i))
}
fn get(proto: &[Rec], i: u8) -> Option<&Rec> {
    proto.iter().find(|r| r.name == Name::Std(i))
}
fn is_int(r: &Rec) -> bool {
    matches!(r.dt, DType::Int { .. })
}
fn is_int_range(r: &Rec, lo: i64, hi: i64) -> bool {
    matches!(r.dt, DType::Int { min, max } if min == lo && max == hi)
}

/// The documented prototype rules (doc comments of RecordName + validate_prototype messages).
pub fn classify_proto(proto: &[Rec], registered: &[(String, String)]) -> Expect {
    use std_name::*;
    let count = |ids: [u8; 3]| ids.iter().filter(|i| has(proto, **i)).count();
    let cart = count([CX, CY, CZ]);
    let sph = count([SR, SA, SE]);
    let col = count([RED, GREEN, BLUE]);
    if (cart != 0 && cart != 3) || (sph != 0 && sph != 3) || (col != 0 && col != 3) {
        return Expect::MustReject;
    }
    if cart == 0 && sph == 0 {
        return Expect::MustReject;
    }
    if let Some(r) = get(proto, CINV) {
        if cart == 0 || !is_int_range(r, 0, 2) {
            return Expect::MustReject;
        }
    }
    if let Some(r) = get(proto, SINV) {
        if sph == 0 || !is_int_range(r, 0, 2) {
            return Expect::MustReject;
        }
    }
    for i in [SA, SE] {
        if let Some(r) = get(proto, i) {
            if is_int(r) {
                return Expect::MustReject;
            }
        }
    }
    if let Some(r) = get(proto, COLINV) {
        if col == 0 || !is_int_range(r, 0, 1) {
            return Expect::MustReject;
        }
    }
    let rc = get(proto, RCOUNT);
    let ri = get(proto, RINDEX);
    if rc.is_some() != ri.is_some() {
        return Expect::MustReject;
    }
    for r in [rc, ri, get(proto, ROW), get(proto, COL)].into_iter().flatten() {
        if !is_int(r) {
            return Expect::MustReject;
        }
    }
    if let Some(r) = get(proto, IINV) {
        if !has(proto, INT) || !is_int_range(r, 0, 1) {
            return Expect::MustReject;
        }
    }
    if let Some(r) = get(proto, TINV) {
        if !has(proto, TIME) || !is_int_range(r, 0, 1) {
            return Expect::MustReject;
        }
    }
    for r in proto {
        if let Name::Ext { ns, name } = &r.name {
            if !valid_ext_name(ns) || !valid_ext_name(name) {
                return Expect::MustReject;
            }
            if !registered.iter().any(|(n, _)| n == ns) {
                return Expect::MustReject;
            }
        }
    }
    // From here on the documentation is silent.
    let mut unspec = false;
    for (i, a) in proto.iter().enumerate() {
        if proto[..i].iter().any(|b| b.name == a.name) {
            unspec = true;
        }
        match &a.dt {
            DType::Int { min, max } | DType::Scaled { min, max, .. } => {
                if min > max {
                    unspec = true;
                }
            }
            DType::Single { min: Some(lo), max: Some(hi) } => {
                if !(lo.f() <= hi.f()) {
                    unspec = true;
                }
            }
            DType::Double { min: Some(lo), max: Some(hi) } => {
                if !(lo.f() <= hi.f()) {
                    unspec = true;
                }
            }
            _ => {}
        }
        if let DType::Scaled { scale, offset, .. } = &a.dt {
            if !scale.f().is_finite() || !offset.f().is_finite() || scale.f() == 0.0 {
                unspec = true;
            }
        }
        if let Name::Ext { ns, name } = &a.name {
            if non_ncname_start(ns) || non_ncname_start(name) {
                unspec = true;
            }
        }
    }
    if proto.iter().all(|r| r.dt.bits() == 0) {
        unspec = true;
    }
    if proto.len() > 2000 {
        unspec = true;
    }
    if unspec {
        Expect::Unspec
    } else {
        Expect::MustAccept
    }
}

pub fn classify_point(values: &[Val], proto: &[Rec]) -> Expect {
    if values.len() != proto.len() {
        return Expect::MustReject;
    }
    for (v, r) in values.iter().zip(proto.iter()) {
        if v.kind() != r.dt.kind() {
            return Expect::MustReject;
        }
        if !v.fits(&r.dt) {
            return Expect::MustReject;
        }
    }
    Expect::MustAccept
}

pub fn classify_register(ns: &str, registered: &[(String, String)]) -> Expect {
    if !valid_ext_name(ns) || registered.iter().any(|(n, _)| n == ns) {
        Expect::MustReject
    } else if non_ncname_start(ns) || registered.iter().any(|(n, _)| n.eq_ignore_ascii_case(ns)) {
        // a second prefix that differs from a registered one only in letter case: distinct for
        // XML, but nothing says a writer has to take it
        Expect::Unspec
    } else {
        Expect::MustAccept
    }
}

/// Limits the writer derives from a record type.
pub fn type_limits(dt: &DType) -> (Option<Lim>, Option<Lim>) {
    match dt {
        DType::Single { min, max } => (min.map(Lim::S), max.map(Lim::S)),
        DType::Double { min, max } => (min.map(Lim::D), max.map(Lim::D)),
        DType::Int { min, max } => (Some(Lim::I(*min)), Some(Lim::I(*max))),
        DType::Scaled { min, max, .. } => (Some(Lim::SI(*min)), Some(Lim::SI(*max))),
    }
}

pub fn default_limits(proto: &[Rec]) -> (Option<ILim>, Option<CLim>) {
    use std_name::*;
    let il = get(proto, INT).map(|r| {
        let (min, max) = type_limits(&r.dt);
        ILim { min, max }
    });
    let cl = if has(proto, RED) {
        match (get(proto, RED), get(proto, GREEN), get(proto, BLUE)) {
            (Some(r), Some(g), Some(b)) => {
                let (r0, r1) = type_limits(&r.dt);
                let (g0, g1) = type_limits(&g.dt);
                let (b0, b1) = type_limits(&b.dt);
                Some(CLim([r0, r1, g0, g1, b0, b1]))
            }
            _ => None,
        }
    } else {
        None
    };
    (il, cl)
}

fn apply_pc_field(meta: &mut PcMeta, f: &PcField) {
    match f {
        PcField::Name(v) => meta.name = v.clone(),
        PcField::Description(v) => meta.description = v.clone(),
        PcField::OriginalGuids(v) => meta.original_guids = v.clone(),
        PcField::Transform(v) => meta.transform = v.clone(),
        PcField::AcqStart(v) => meta.acq_start = v.clone(),
        PcField::AcqEnd(v) => meta.acq_end = v.clone(),
        PcField::SensorVendor(v) => meta.sensor_vendor = v.clone(),
        PcField::SensorModel(v) => meta.sensor_model = v.clone(),
        PcField::SensorSerial(v) => meta.sensor_serial = v.clone(),
        PcField::SensorHw(v) => meta.sensor_hw = v.clone(),
        PcField::SensorSw(v) => meta.sensor_sw = v.clone(),
        PcField::SensorFw(v) => meta.sensor_fw = v.clone(),
        PcField::Temperature(v) => meta.temperature = *v,
        PcField::Humidity(v) => meta.humidity = *v,
        PcField::Pressure(v) => meta.pressure = *v,
        PcField::IntensityLimits(v) => meta.intensity_limits = v.clone(),
        PcField::ColorLimits(v) => meta.color_limits = v.clone(),
    }
}

fn apply_img_field(meta: &mut ImgMeta, f: &ImgField) {
    match f {
        ImgField::Name(v) => meta.name = Some(v.clone()),
        ImgField::Description(v) => meta.description = Some(v.clone()),
        ImgField::PcGuid(v) => meta.pointcloud_guid = Some(v.clone()),
        ImgField::Transform(v) => meta.transform = Some(v.clone()),
        ImgField::Acquisition(v) => meta.acquisition = Some(v.clone()),
        ImgField::SensorVendor(v) => meta.sensor_vendor = Some(v.clone()),
        ImgField::SensorModel(v) => meta.sensor_model = Some(v.clone()),
        ImgField::SensorSerial(v) => meta.sensor_serial = Some(v.clone()),
    }
}

pub fn edit_xml(xml: &str) -> String {
    let marker = "</e57Root>";
    match xml.rfind(marker) {
        Some(pos) => {
            let mut s = String::with_capacity(xml.len() + 200);
            s.push_str(&xml[..pos]);
            s.push_str("<!-- edited by the caller's transformer -->\n");
            s.push_str("<sim:note xmlns:sim=\"http://example.org/sim\" type=\"String\"><![CDATA[edited]]></sim:note>\n");
            s.push_str(&xml[pos..]);
            s
        }
        None => xml.to_string(),
    }
}

pub const PIPE_DEV_BASE: u8 = DEV_PIPE;

/// Execute a program against `E57Writer<SimDisk>`.
/// Stops at the first call that fails although the model expects success (the `?` idiom);
/// calls the model expects to be rejected (or leaves open) are continued over.
pub fn exec_program(prog: &Program, ctx: &Ctx, disk: &SimDisk) -> Executed {
    let mut calls: Vec<CallRec> = Vec::new();
    let mut expected = Expected::default();
    expected.file.guid = prog.guid.clone();
    let mut blob_descs = Vec::new();
    let mut stopped_at: Option<usize> = None;
    // OnError::Continue: the first call that failed, and whether the item in progress is given up
    let mut first_failure: Option<usize> = None;
    let mut give_up_item = false;
    let mut completed = false;
    let mut finalize_op_from = None;
    let mut xml_out: Option<String> = None;
    let mut dirty_after_finalize = false;
    let mut registered: Vec<(String, String)> = Vec::new();
    let mut pipe_no: u8 = 0;
    let opno = |ctx: &Ctx| ctx.borrow().op_no;

    e57::verif::set_max_packet_points(prog.knob);

    macro_rules! record {
        ($label:expr, $idx:expr, $expect:expr, $from:expr, $res:expr) => {{
            let (ok, err) = match &$res {
                Ok(_) => (true, None),
                Err(e) => (false, Some(e.to_string())),
            };
            calls.push(CallRec {
                label: $label,
                call_index: $idx,
                op_from: $from,
                op_to: opno(ctx),
                ok,
                err,
                expect: $expect,
            });
            if !ok && $expect == Expect::MustAccept {
                if first_failure.is_none() {
                    first_failure = Some(calls.len() - 1);
                }
                if prog.on_error == OnError::Continue {
                    give_up_item = true;
                } else if stopped_at.is_none() {
                    stopped_at = Some(calls.len() - 1);
                }
            }
            ok
        }};
    }

    let from = opno(ctx);
    let w = E57Writer::new(disk.clone(), &prog.guid);
    let ok = record!("E57Writer::new".to_string(), usize::MAX, Expect::MustAccept, from, w);
    let drop_op_from;
    if let (true, Ok(mut w)) = (ok, w) {
        'calls: for (ci, call) in prog.calls.iter().enumerate() {
            if stopped_at.is_some() {
                break;
            }
            give_up_item = false;
            match call {
                Call::RegisterExt { ns, url } => {
                    let exp = classify_register(ns, &registered);
                    let from = opno(ctx);
                    let r = w.register_extension(Extension::new(ns, url));
                    if record!(format!("register_extension({ns:?})"), ci, exp, from, r) && exp != Expect::MustReject {
                        registered.push((ns.clone(), url.clone()));
                        expected.file.extensions.push((ns.clone(), url.clone()));
                    }
                }
                Call::CoordMeta(v) => {
                    w.set_coordinate_metadata(v.clone());
                    expected.file.coord_meta = v.clone();
                }
                Call::Creation(v) => {
                    w.set_creation(v.as_ref().map(dtm_to_e57));
                    expected.file.creation = v.clone();
                }
                Call::Blob { data, pipe, fail_after: Some(k) } => {
                    let bytes = data.make();
                    let k = (*k).min(bytes.len());
                    let mut src = FailingSrc { inner: PipeSrc::new(ctx, PIPE_DEV_BASE + pipe_no, bytes[..k].to_vec(), pipe) };
                    pipe_no = pipe_no.wrapping_add(1) % 64;
                    let from = opno(ctx);
                    let r = w.add_blob(&mut src);
                    record!(format!("add_blob({} bytes, source fails after {k})", bytes.len()), ci, Expect::MustReject, from, r);
                }
                Call::Blob { data, pipe, fail_after: None } => {
                    let bytes = data.make();
                    let mut src = PipeSrc::new(ctx, PIPE_DEV_BASE + pipe_no, bytes.clone(), pipe);
                    pipe_no = pipe_no.wrapping_add(1) % 64;
                    let from = opno(ctx);
                    let r = w.add_blob(&mut src);
                    if record!(format!("add_blob({} bytes)", bytes.len()), ci, Expect::MustAccept, from, r) {
                        if let Ok(b) = &r {
                            blob_descs.push((b.offset, b.length));
                        }
                        expected.blobs.push(bytes);
                    }
                }
                Call::Pc { guid, proto, steps, end } => {
                    let exp = classify_proto(proto, &registered);
                    let e57_proto: Vec<e57::Record> = proto.iter().map(rec_to_e57).collect();
                    let from = opno(ctx);
                    let r = w.add_pointcloud(guid, e57_proto);
                    let ok = record!(format!("add_pointcloud({} records)", proto.len()), ci, exp, from, r);
                    let mut pw = match (ok, r) {
                        (true, Ok(pw)) => pw,
                        _ => continue 'calls,
                    };
                    let (il, cl) = default_limits(proto);
                    let mut meta = PcMeta {
                        intensity_limits: il,
                        color_limits: cl,
                        ..Default::default()
                    };
                    let mut points: Vec<Point> = Vec::new();
                    let mut n_point_calls = 0usize;
                    for step in steps {
                        if stopped_at.is_some() || give_up_item {
                            break;
                        }
                        match step {
                            PcStep::Set(f) => {
                                match f {
                                    PcField::Name(v) => pw.set_name(v.clone()),
                                    PcField::Description(v) => pw.set_description(v.clone()),
                                    PcField::OriginalGuids(v) => pw.set_original_guids(v.clone()),
                                    PcField::Transform(v) => pw.set_transform(v.as_ref().map(xform_to_e57)),
                                    PcField::AcqStart(v) => pw.set_acquisition_start(v.as_ref().map(dtm_to_e57)),
                                    PcField::AcqEnd(v) => pw.set_acquisition_end(v.as_ref().map(dtm_to_e57)),
                                    PcField::SensorVendor(v) => pw.set_sensor_vendor(v.clone()),
                                    PcField::SensorModel(v) => pw.set_sensor_model(v.clone()),
                                    PcField::SensorSerial(v) => pw.set_sensor_serial(v.clone()),
                                    PcField::SensorHw(v) => pw.set_sensor_hw_version(v.clone()),
                                    PcField::SensorSw(v) => pw.set_sensor_sw_version(v.clone()),
                                    PcField::SensorFw(v) => pw.set_sensor_fw_version(v.clone()),
                                    PcField::Temperature(v) => pw.set_temperature(v.map(|b| b.f())),
                                    PcField::Humidity(v) => pw.set_humidity(v.map(|b| b.f())),
                                    PcField::Pressure(v) => pw.set_atmospheric_pressure(v.map(|b| b.f())),
                                    PcField::IntensityLimits(v) => pw.set_intensity_limits(v.as_ref().map(ilim_to_e57)),
                                    PcField::ColorLimits(v) => pw.set_color_limits(v.as_ref().map(clim_to_e57)),
                                }
                                apply_pc_field(&mut meta, f);
                            }
                            PcStep::Point(vals) => {
                                let pexp = classify_point(vals, proto);
                                let from = opno(ctx);
                                let r = pw.add_point(vals.iter().map(val_to_e57).collect());
                                n_point_calls += 1;
                                if record!(format!("pc[{ci}].add_point#{n_point_calls}"), ci, pexp, from, r)
                                    && pexp != Expect::MustReject
                                {
                                    points.push(vals.clone());
                                }
                            }
                            PcStep::Points { n, seed } => {
                                let pts = gen_points(proto, *n, *seed);
                                let from = opno(ctx);
                                let mut res: e57::Result<()> = Ok(());
                                let mut added = 0;
                                for p in &pts {
                                    res = pw.add_point(p.iter().map(val_to_e57).collect());
                                    n_point_calls += 1;
                                    if res.is_err() {
                                        break;
                                    }
                                    added += 1;
                                }
                                points.extend(pts.into_iter().take(added));
                                record!(format!("pc[{ci}].add_point x{n} (#{n_point_calls})"), ci, Expect::MustAccept, from, res);
                            }
                        }
                    }
                    if stopped_at.is_some() {
                        break 'calls;
                    }
                    if give_up_item {
                        // the sub-writer is dropped without finalize
                        give_up_item = false;
                        continue 'calls;
                    }
                    if *end == SubEnd::Finalize {
                        let mut from = opno(ctx);
                        let mut r = pw.finalize();
                        let mut exp = Expect::MustAccept;
                        if r.is_err() && prog.on_error == OnError::RetryFinalize {
                            // the caller repeats the failed call once; whether that may succeed
                            // is left open, but if it does the cloud must be complete
                            record!(format!("pc[{ci}].finalize (first attempt)"), ci, Expect::Unspec, from, r);
                            if first_failure.is_none() {
                                first_failure = Some(calls.len() - 1);
                            }
                            from = opno(ctx);
                            r = pw.finalize();
                            exp = Expect::Unspec;
                        }
                        if record!(format!("pc[{ci}].finalize"), ci, exp, from, r) {
                            // partial limits are not written
                            if let Some(l) = &meta.intensity_limits {
                                if !l.complete() {
                                    meta.intensity_limits = None;
                                }
                            }
                            if let Some(l) = &meta.color_limits {
                                if !l.complete() {
                                    meta.color_limits = None;
                                }
                            }
                            expected.file.pcs.push(PcRead {
                                guid: Some(guid.clone()),
                                proto: proto.clone(),
                                records: points.len() as u64,
                                meta,
                                bounds: Bounds::default(),
                                points: Ok(points),
                            });
                        }
                    }
                }
                Call::Img { guid, steps, end } => {
                    let from = opno(ctx);
                    let r = w.add_image(guid);
                    let ok = record!("add_image".to_string(), ci, Expect::MustAccept, from, r);
                    let mut iw = match (ok, r) {
                        (true, Ok(iw)) => iw,
                        _ => continue 'calls,
                    };
                    let mut meta = ImgMeta::default();
                    let mut visual: Option<RepRead> = None;
                    let mut projection: Option<RepRead> = None;
                    for step in steps {
                        if stopped_at.is_some() || give_up_item {
                            break;
                        }
                        match step {
                            ImgStep::Set(f) => {
                                match f {
                                    ImgField::Name(v) => iw.set_name(v),
                                    ImgField::Description(v) => iw.set_description(v),
                                    ImgField::PcGuid(v) => iw.set_pointcloud_guid(v),
                                    ImgField::Transform(v) => iw.set_transform(xform_to_e57(v)),
                                    ImgField::Acquisition(v) => iw.set_acquisition(dtm_to_e57(v)),
                                    ImgField::SensorVendor(v) => iw.set_sensor_vendor(v),
                                    ImgField::SensorModel(v) => iw.set_sensor_model(v),
                                    ImgField::SensorSerial(v) => iw.set_sensor_serial(v),
                                }
                                apply_img_field(&mut meta, f);
                            }
                            ImgStep::Rep(spec) => {
                                let exp = if spec.kind != RepKind::Visual && projection.is_some() {
                                    Expect::MustReject
                                } else {
                                    Expect::MustAccept
                                };
                                let data = spec.data.make();
                                let mask = spec.mask.as_ref().map(|m| m.make());
                                let mut dsrc = PipeSrc::new(ctx, PIPE_DEV_BASE + pipe_no, data.clone(), &spec.pipe);
                                pipe_no = pipe_no.wrapping_add(1) % 64;
                                let mut msrc = mask
                                    .as_ref()
                                    .map(|m| PipeSrc::new(ctx, PIPE_DEV_BASE + pipe_no, m.clone(), &spec.pipe));
                                pipe_no = pipe_no.wrapping_add(1) % 64;
                                let mref: Option<&mut dyn Read> = msrc.as_mut().map(|m| m as &mut dyn Read);
                                let fl = |i: usize| spec.props.floats.get(i).map(|b| b.f()).unwrap_or(0.0);
                                let from = opno(ctx);
                                let fmt = fmt_to_e57(spec.format);
                                let r = match spec.kind {
                                    RepKind::Visual => iw.add_visual_reference(
                                        fmt,
                                        &mut dsrc,
                                        VisualReferenceImageProperties {
                                            width: spec.props.width,
                                            height: spec.props.height,
                                        },
                                        mref,
                                    ),
                                    RepKind::Pinhole => iw.add_pinhole(
                                        fmt,
                                        &mut dsrc,
                                        PinholeImageProperties {
                                            width: spec.props.width,
                                            height: spec.props.height,
                                            focal_length: fl(0),
                                            pixel_width: fl(1),
                                            pixel_height: fl(2),
                                            principal_x: fl(3),
                                            principal_y: fl(4),
                                        },
                                        mref,
                                    ),
                                    RepKind::Spherical => iw.add_spherical(
                                        fmt,
                                        &mut dsrc,
                                        SphericalImageProperties {
                                            width: spec.props.width,
                                            height: spec.props.height,
                                            pixel_width: fl(0),
                                            pixel_height: fl(1),
                                        },
                                        mref,
                                    ),
                                    RepKind::Cylindrical => iw.add_cylindrical(
                                        fmt,
                                        &mut dsrc,
                                        CylindricalImageProperties {
                                            width: spec.props.width,
                                            height: spec.props.height,
                                            radius: fl(0),
                                            principal_y: fl(1),
                                            pixel_width: fl(2),
                                            pixel_height: fl(3),
                                        },
                                        mref,
                                    ),
                                };
                                if record!(format!("img[{ci}].add_{:?}", spec.kind), ci, exp, from, r) && exp != Expect::MustReject {
                                    let rr = RepRead {
                                        kind: spec.kind,
                                        format: spec.format,
                                        props: spec.props.clone(),
                                        data_len: data.len() as u64,
                                        data: Ok(data),
                                        mask_len: mask.as_ref().map(|m| m.len() as u64),
                                        mask: mask.map(Ok),
                                    };
                                    if spec.kind == RepKind::Visual {
                                        visual = Some(rr);
                                    } else {
                                        projection = Some(rr);
                                    }
                                }
                            }
                        }
                    }
                    if stopped_at.is_some() {
                        break 'calls;
                    }
                    if give_up_item {
                        // the sub-writer is dropped without finalize
                        give_up_item = false;
                        continue 'calls;
                    }
                    if *end == SubEnd::Finalize {
                        let exp = if visual.is_none() && projection.is_none() {
                            Expect::MustReject
                        } else {
                            Expect::MustAccept
                        };
                        let from = opno(ctx);
                        let r = iw.finalize();
                        if record!(format!("img[{ci}].finalize"), ci, exp, from, r) && exp != Expect::MustReject {
                            expected.file.images.push(ImgRead {
                                guid: Some(guid.clone()),
                                meta,
                                visual,
                                projection,
                            });
                        }
                    }
                }
            }
        }
        if stopped_at.is_none() {
            match &prog.end {
                End::DropOnly => {}
                End::Finalize => {
                    let exp = if prog.guid.is_empty() { Expect::MustReject } else { Expect::MustAccept };
                    let from = opno(ctx);
                    finalize_op_from = Some(from);
                    let r = w.finalize();
                    completed = record!("finalize".to_string(), usize::MAX, exp, from, r);
                    if !completed && exp == Expect::MustAccept && prog.on_error == OnError::RetryFinalize {
                        let from = opno(ctx);
                        let r = w.finalize();
                        completed = record!("finalize (second call)".to_string(), usize::MAX, Expect::Unspec, from, r);
                    }
                    dirty_after_finalize = disk.dirty();
                }
                End::FinalizeXml(script) => {
                    let exp = if prog.guid.is_empty() || *script == XmlScript::Fail {
                        Expect::MustReject
                    } else {
                        Expect::MustAccept
                    };
                    let from = opno(ctx);
                    finalize_op_from = Some(from);
                    let captured = std::cell::RefCell::new(None);
                    let r = w.finalize_customized_xml(|xml| match script {
                        XmlScript::Identity => {
                            *captured.borrow_mut() = Some(xml.clone());
                            Ok(xml)
                        }
                        XmlScript::Fail => Err(e57::Error::Invalid {
                            desc: "transformer failed on purpose".into(),
                            source: None,
                        }),
                        XmlScript::Edit => {
                            let e = edit_xml(&xml);
                            *captured.borrow_mut() = Some(e.clone());
                            Ok(e)
                        }
                        XmlScript::Append => {
                            let e = format!("{xml}<!-- appended by the caller's transformer -->\n");
                            *captured.borrow_mut() = Some(e.clone());
                            Ok(e)
                        }
                        XmlScript::Shorten => {
                            // the white space behind the root and the line break in front of its
                            // end tag (never inside character data)
                            let mut e = xml.trim_end().to_string();
                            if e.ends_with("\n</e57Root>") {
                                let cut = e.len() - "\n</e57Root>".len();
                                e.replace_range(cut..cut + 1, "");
                            }
                            *captured.borrow_mut() = Some(e.clone());
                            Ok(e)
                        }
                    });
                    xml_out = captured.into_inner();
                    completed = record!(format!("finalize_customized_xml({script:?})"), usize::MAX, exp, from, r);
                    dirty_after_finalize = disk.dirty();
                }
            }
        }
        drop_op_from = opno(ctx);
        drop(w);
    } else {
        drop_op_from = opno(ctx);
    }
    e57::verif::set_max_packet_points(None);
    Executed {
        calls,
        completed,
        stopped_at,
        finalize_op_from,
        drop_op_from,
        expected,
        blob_descs,
        xml_out,
        dirty_after_finalize,
        first_failure,
    }
}

/// The scene a rule-conforming program describes, computed without the writer (used to feed the
/// foreign producer). Calls the model would reject are skipped.
pub fn scene_of(prog: &Program) -> Expected {
    let mut e = Expected::default();
    e.file.guid = prog.guid.clone();
    let mut registered: Vec<(String, String)> = Vec::new();
    for call in &prog.calls {
        match call {
            Call::RegisterExt { ns, url } => {
                if classify_register(ns, &registered) == Expect::MustAccept {
                    registered.push((ns.clone(), url.clone()));
                    e.file.extensions.push((ns.clone(), url.clone()));
                }
            }
            Call::CoordMeta(v) => e.file.coord_meta = v.clone(),
            Call::Creation(v) => e.file.creation = v.clone(),
            Call::Blob { fail_after: Some(_), .. } => {}
            Call::Blob { data, .. } => e.blobs.push(data.make()),
            Call::Pc { guid, proto, steps, end } => {
                if classify_proto(proto, &registered) == Expect::MustReject || *end != SubEnd::Finalize {
                    continue;
                }
                let (il, cl) = default_limits(proto);
                let mut meta = PcMeta { intensity_limits: il, color_limits: cl, ..Default::default() };
                let mut points = Vec::new();
                for s in steps {
                    match s {
                        PcStep::Set(f) => apply_pc_field(&mut meta, f),
                        PcStep::Point(p) => {
                            if classify_point(p, proto) == Expect::MustAccept {
                                points.push(p.clone());
                            }
                        }
                        PcStep::Points { n, seed } => points.extend(gen_points(proto, *n, *seed)),
                    }
                }
                if meta.intensity_limits.as_ref().map(|l| !l.complete()).unwrap_or(false) {
                    meta.intensity_limits = None;
                }
                if meta.color_limits.as_ref().map(|l| !l.complete()).unwrap_or(false) {
                    meta.color_limits = None;
                }
                e.file.pcs.push(PcRead { guid: Some(guid.clone()), proto: proto.clone(), records: points.len() as u64, meta, bounds: Bounds::default(), points: Ok(points) });
            }
            Call::Img { guid, steps, end } => {
                if *end != SubEnd::Finalize {
                    continue;
                }
                let mut meta = ImgMeta::default();
                let mut visual = None;
                let mut projection = None;
                for s in steps {
                    match s {
                        ImgStep::Set(f) => apply_img_field(&mut meta, f),
                        ImgStep::Rep(spec) => {
                            if spec.kind != RepKind::Visual && projection.is_some() {
                                continue;
                            }
                            let data = spec.data.make();
                            let mask = spec.mask.as_ref().map(|m| m.make());
                            let rr = RepRead {
                                kind: spec.kind,
                                format: spec.format,
                                props: spec.props.clone(),
                                data_len: data.len() as u64,
                                data: Ok(data),
                                mask_len: mask.as_ref().map(|m| m.len() as u64),
                                mask: mask.map(Ok),
                            };
                            if spec.kind == RepKind::Visual {
                                visual = Some(rr);
                            } else {
                                projection = Some(rr);
                            }
                        }
                    }
                }
                if visual.is_some() || projection.is_some() {
                    e.file.images.push(ImgRead { guid: Some(guid.clone()), meta, visual, projection });
                }
            }
        }
    }
    e
}
