//! Foreign producer: an independent, specification-driven E57 encoder whose legal layout choices
//! (packetisation, interleaved non-data packets, padding, section order and position, XML lexical
//! variants, omitted optional type attributes) are drawn from a seeded layout schedule.
//! The legal space is deliberately conservative (DESIGN.md §2.4).

use super::decode::{E57_NS, FORMAT_NAME};
use super::page::{page_up, to_phys};
use crate::model::*;
use crate::rng::Rng;
use serde::{Deserialize, Serialize};

#[derive(Clone, Copy, Debug, PartialEq, Serialize, Deserialize)]
pub enum Split {
    /// as few data packets as the 64 KiB limit allows
    Whole,
    /// k points per packet for every stream (what typical writers do)
    Even { points: usize },
    /// independent byte counts per stream and packet (values straddle packets, empty streams)
    Ragged,
    /// attribute by attribute: every packet is filled from the first unfinished stream on, so
    /// early attributes run far ahead of late ones
    Sequential,
}

/// The producer's schedule: `encode` is a pure function of (scene, layout).
#[derive(Clone, Debug, PartialEq, Serialize, Deserialize)]
pub struct Layout {
    pub seed: u64,
    pub split: Split,
    /// index and ignored packets before / between / after data packets
    pub non_data_packets: bool,
    /// shuffle section order, place the XML anywhere, unreferenced padding between sections
    pub shuffle: bool,
    /// omit optional type attributes that equal their defaults
    pub omit_defaults: bool,
    /// lexical variants of the XML
    pub lexical: bool,
    /// upper bound of data packets per cloud (ragged splits)
    pub max_packets: usize,
}

impl Layout {
    pub fn plain(seed: u64) -> Layout {
        Layout { seed, split: Split::Whole, non_data_packets: false, shuffle: false, omit_defaults: false, lexical: false, max_packets: 60 }
    }
    pub fn draw(r: &mut Rng) -> Layout {
        Layout {
            seed: r.next_u64(),
            split: match r.below(6) {
                0 => Split::Whole,
                1 => Split::Even { points: *r.pick(&[1usize, 2, 3, 7, 8, 9, 50, 1000]) },
                _ => Split::Ragged,
            },
            non_data_packets: r.chance(1, 2),
            shuffle: r.chance(1, 2),
            omit_defaults: r.chance(1, 2),
            lexical: r.chance(1, 2),
            max_packets: *r.pick(&[4usize, 12, 60]),
        }
    }
}

#[derive(Clone, Debug, Default)]
pub struct EncScene {
    pub file: FileRead,
    /// blobs that no XML element refers to (custom data); descriptors are returned by `encode`
    pub blobs: Vec<Vec<u8>>,
}

#[derive(Clone, Debug, Default)]
pub struct LayoutStats {
    pub data_packets: u64,
    pub index_packets: u64,
    pub ignored_packets: u64,
    pub empty_streams: u64,
    pub packets_completing_no_point: u64,
    pub values_cut_across_packets: u64,
    pub non_data_first: bool,
    pub non_data_middle: bool,
    pub non_data_last: bool,
    pub section_residues: Vec<u64>,
    pub cut_offsets_in_value: Vec<u64>,
    pub all_empty_data_packets: u64,
    pub pages_of_leading_non_data: bool,
    pub max_packet_len: u64,
    pub max_stream_len_in_packet: u64,
    pub max_non_data_packet_len: u64,
    pub max_index_level: u64,
    pub long_run_of_non_data: bool,
}

#[derive(Clone, Debug, Default)]
pub struct Encoded {
    pub image: Vec<u8>,
    pub blob_descs: Vec<(u64, u64)>,
    pub stats: LayoutStats,
}

fn pack_stream(points: &[Point], col: usize, dt: &DType) -> Vec<u8> {
    let bits = dt.bits() as usize;
    let total = bits * points.len();
    let mut out = vec![0u8; total.div_ceil(8)];
    let mut pos = 0usize;
    for p in points {
        let v: u64 = match (p[col], dt) {
            (Val::S(b), _) => b as u64,
            (Val::D(b), _) => b,
            (Val::I(i), DType::Int { min, .. }) | (Val::SI(i), DType::Scaled { min, .. }) => (i as i128 - *min as i128) as u64,
            (Val::I(i), _) | (Val::SI(i), _) => i as u64,
        };
        for b in 0..bits {
            if (v >> b) & 1 != 0 {
                out[(pos + b) / 8] |= 1 << ((pos + b) % 8);
            }
        }
        pos += bits;
    }
    out
}

struct Section {
    bytes: Vec<u8>,
    /// where to patch physical offsets once the section is placed: (byte position in `bytes`, logical offset relative to section start)
    patches: Vec<(usize, u64)>,
    kind: SecKind,
}

#[derive(Clone, Copy, PartialEq)]
enum SecKind {
    Cv(usize),
    RepData(usize, bool),
    RepMask(usize, bool),
    Blob(usize),
}

fn blob_section(data: &[u8]) -> Vec<u8> {
    let mut b = vec![0u8; 16];
    let total = (16 + data.len()).div_ceil(4) * 4;
    b[8..16].copy_from_slice(&(total as u64).to_le_bytes());
    b.extend_from_slice(data);
    b.resize(total, 0);
    b
}

fn data_packet(chunks: &[&[u8]]) -> Vec<u8> {
    let mut p = vec![1u8, 0, 0, 0];
    p.extend_from_slice(&(chunks.len() as u16).to_le_bytes());
    for c in chunks {
        p.extend_from_slice(&(c.len() as u16).to_le_bytes());
    }
    for c in chunks {
        p.extend_from_slice(c);
    }
    while p.len() % 4 != 0 {
        p.push(0);
    }
    let l = (p.len() - 1) as u16;
    p[2..4].copy_from_slice(&l.to_le_bytes());
    p
}

fn ignored_packet(r: &mut Rng) -> Vec<u8> {
    // usually a few words; now and then up to the largest packet the length field can express
    let words = if r.chance(1, 12) { *r.pick(&[16384usize, 16383, 8192, 300]) } else { 1 + r.usize_below(6) };
    let mut p = vec![0u8; 4 * words];
    p[0] = 2;
    r.fill(&mut p[4..]);
    let l = (p.len() - 1) as u16;
    p[2..4].copy_from_slice(&l.to_le_bytes());
    p
}

/// Index packet with `n` entries; entry offsets are patched later (relative logical offsets given).
fn index_packet(entries: &[(u64, u64)], level: u8) -> (Vec<u8>, Vec<(usize, u64)>) {
    let mut p = vec![0u8; 16];
    p[0] = 0;
    p[4..6].copy_from_slice(&(entries.len() as u16).to_le_bytes());
    p[6] = level;
    let mut patches = Vec::new();
    for (rec, rel) in entries {
        p.extend_from_slice(&rec.to_le_bytes());
        patches.push((p.len(), *rel));
        p.extend_from_slice(&0u64.to_le_bytes());
    }
    let l = (p.len() - 1) as u16;
    p[2..4].copy_from_slice(&l.to_le_bytes());
    (p, patches)
}

fn cv_section(pc: &PcRead, layout: &Layout, r: &mut Rng, stats: &mut LayoutStats) -> Section {
    let empty: Vec<Point> = Vec::new();
    let points = pc.points.as_ref().unwrap_or(&empty);
    let streams: Vec<Vec<u8>> = pc.proto.iter().enumerate().map(|(i, rec)| pack_stream(points, i, &rec.dt)).collect();
    let widths: Vec<usize> = pc.proto.iter().map(|rec| rec.dt.bits() as usize).collect();
    let n = pc.proto.len();
    // decide the byte counts of every data packet
    let mut cursors = vec![0usize; n];
    let remaining = |c: &Vec<usize>| -> usize { (0..n).map(|i| streams[i].len() - c[i]).sum() };
    let mut packets: Vec<Vec<(usize, usize)>> = Vec::new(); // per packet: (from, to) per stream
    let budget = 65536 - 6 - 2 * n - 4; // payload bytes per packet
    while remaining(&cursors) > 0 {
        let mut take = vec![0usize; n];
        let left = layout.max_packets.saturating_sub(packets.len() + 1);
        match layout.split {
            Split::Whole => {
                let mut room = budget;
                // proportional fill: same number of points for every stream as far as possible
                let bits_per_point: usize = widths.iter().sum();
                let pts = if bits_per_point == 0 { 0 } else { (room * 8) / bits_per_point.max(1) };
                for i in 0..n {
                    let want = ((pts * widths[i]) / 8).min(streams[i].len() - cursors[i]).min(65535);
                    take[i] = want.min(room);
                    room -= take[i];
                }
                if take.iter().sum::<usize>() == 0 {
                    for i in 0..n {
                        take[i] = (streams[i].len() - cursors[i]).min(room).min(65535);
                        room -= take[i];
                    }
                }
            }
            Split::Even { points: k } => {
                let mut room = budget;
                // bytes needed so that k more points are complete in every stream
                let done_pts: usize = packets.len() * k;
                for i in 0..n {
                    let upto = (((done_pts + k) * widths[i]).div_ceil(8)).min(streams[i].len());
                    let want = upto.saturating_sub(cursors[i]).min(65535);
                    take[i] = want.min(room);
                    room -= take[i];
                }
                if take.iter().sum::<usize>() == 0 {
                    for i in 0..n {
                        take[i] = (streams[i].len() - cursors[i]).min(room).min(65535);
                        room -= take[i];
                    }
                }
            }
            Split::Sequential => {
                let mut room = budget;
                for i in 0..n {
                    take[i] = (streams[i].len() - cursors[i]).min(room).min(65535);
                    room -= take[i];
                }
            }
            Split::Ragged => {
                let mut room = budget;
                let last_chance = left == 0;
                for i in 0..n {
                    let rem = streams[i].len() - cursors[i];
                    if rem == 0 {
                        continue;
                    }
                    let want = if last_chance {
                        rem
                    } else {
                        match r.below(8) {
                            0 => 0,
                            1 => 1,
                            2 => rem,
                            3 => {
                                // cut inside a multi-byte value
                                let vb = (widths[i] / 8).max(1);
                                (vb * (1 + r.usize_below(4)) + 1 + r.usize_below(vb)).min(rem)
                            }
                            4 => rem.saturating_sub(1),
                            _ => 1 + r.usize_below(rem.min(400)),
                        }
                    };
                    take[i] = want.min(room).min(65535);
                    room -= take[i];
                }
                if take.iter().sum::<usize>() == 0 && !packets.is_empty() && r.chance(1, 3) && left > 2 {
                    // a data packet whose streams are all empty (legal; carries no value)
                    stats.all_empty_data_packets += 1;
                } else if take.iter().sum::<usize>() == 0 {
                    // progress: give one stream something
                    let cands: Vec<usize> = (0..n).filter(|i| streams[*i].len() > cursors[*i]).collect();
                    let i = cands[r.usize_below(cands.len())];
                    take[i] = (streams[i].len() - cursors[i]).min(room).min(65535).max(1);
                }
            }
        }
        let mut pk = Vec::with_capacity(n);
        for i in 0..n {
            pk.push((cursors[i], cursors[i] + take[i]));
            cursors[i] += take[i];
        }
        packets.push(pk);
    }
    if packets.is_empty() && !points.is_empty() {
        // every record has zero width: one data packet whose streams are all empty
        packets.push((0..n).map(|_| (0usize, 0usize)).collect());
    }
    // statistics about the packetisation
    let complete = |c: &[usize]| -> usize {
        (0..n).filter(|i| widths[*i] > 0).map(|i| c[i] * 8 / widths[i]).min().unwrap_or(0).min(points.len())
    };
    let mut before = vec![0usize; n];
    for pk in &packets {
        let after: Vec<usize> = pk.iter().map(|(_, t)| *t).collect();
        if complete(&after) == complete(&before) {
            stats.packets_completing_no_point += 1;
        }
        for i in 0..n {
            let (f, t) = pk[i];
            if f == t && streams[i].len() > 0 {
                stats.empty_streams += 1;
            }
            if widths[i] >= 8 && t < streams[i].len() && t > f && (t * 8) % widths[i] != 0 {
                stats.values_cut_across_packets += 1;
                stats.cut_offsets_in_value.push(((t * 8) % widths[i] / 8) as u64 + 100 * (widths[i] as u64 / 8));
            }
        }
        before = after;
    }
    stats.data_packets += packets.len() as u64;

    // assemble the section: header, packets with optional non-data packets in between
    let mut bytes = vec![0u8; 32];
    bytes[0] = 1;
    let mut patches: Vec<(usize, u64)> = Vec::new();
    let mut data_rel: Option<u64> = None;
    let mut index_rel: Option<u64> = None;
    let mut data_packet_rels: Vec<(u64, u64)> = Vec::new(); // (first record of packet, relative offset)
    let nd = layout.non_data_packets;
    let mut rec_before = 0usize;
    let mut before = vec![0usize; n];
    let n_packets = packets.len();
    // (first record, relative offset, level) of the index packets written so far
    let mut index_rels: Vec<(u64, u64, u8)> = Vec::new();
    let mut non_data = |bytes: &mut Vec<u8>, r: &mut Rng, patches: &mut Vec<(usize, u64)>, index_rel: &mut Option<u64>, rels: &Vec<(u64, u64)>, stats: &mut LayoutStats| {
        if r.chance(1, 2) {
            let p = ignored_packet(r);
            stats.max_non_data_packet_len = stats.max_non_data_packet_len.max(p.len() as u64);
            bytes.extend_from_slice(&p);
            stats.ignored_packets += 1;
        } else {
            // a leaf index packet (level 0) over data packets, or - once index packets exist -
            // a packet of the next level over the index packets of the highest level so far
            let top = index_rels.iter().map(|x| x.2).max();
            let (entries, level): (Vec<(u64, u64)>, u8) = match top {
                Some(t) if t < 5 && r.chance(1, 2) => (index_rels.iter().filter(|x| x.2 == t).map(|x| (x.0, x.1)).take(4).collect(), t + 1),
                _ => {
                    let k = r.usize_below(rels.len().min(3) + 1);
                    (rels.iter().rev().take(k).cloned().collect(), 0)
                }
            };
            stats.max_index_level = stats.max_index_level.max(level as u64);
            let (p, pp) = index_packet(&entries, level);
            let base = bytes.len();
            index_rels.push((entries.first().map(|e| e.0).unwrap_or(0), base as u64, level));
            if index_rel.is_none() {
                *index_rel = Some(base as u64);
            }
            for (pos, rel) in pp {
                patches.push((base + pos, rel));
            }
            bytes.extend_from_slice(&p);
            stats.index_packets += 1;
        }
    };
    if nd && r.chance(1, 3) {
        non_data(&mut bytes, r, &mut patches, &mut index_rel, &data_packet_rels, stats);
        stats.non_data_first = true;
        if r.chance(1, 4) {
            // several pages of ignored packets between the section header and the first data packet
            // (now and then more than a thousand small packets in a row)
            let many = r.chance(1, 8);
            let k = if many { 1030 + r.usize_below(600) } else { 2 + r.usize_below(9) };
            for _ in 0..k {
                let words = if many { 1 + r.usize_below(3) } else { 64 + r.usize_below(200) };
                let mut p = vec![0u8; 4 * words];
                p[0] = 2;
                r.fill(&mut p[4..]);
                let l = (p.len() - 1) as u16;
                p[2..4].copy_from_slice(&l.to_le_bytes());
                bytes.extend_from_slice(&p);
                stats.ignored_packets += 1;
            }
            stats.pages_of_leading_non_data = true;
        }
    }
    for (k, pk) in packets.iter().enumerate() {
        let chunks: Vec<&[u8]> = (0..n).map(|i| &streams[i][pk[i].0..pk[i].1]).collect();
        let p = data_packet(&chunks);
        stats.max_packet_len = stats.max_packet_len.max(p.len() as u64);
        for c in &chunks {
            stats.max_stream_len_in_packet = stats.max_stream_len_in_packet.max(c.len() as u64);
        }
        if data_rel.is_none() {
            data_rel = Some(bytes.len() as u64);
        }
        data_packet_rels.push((rec_before as u64, bytes.len() as u64));
        bytes.extend_from_slice(&p);
        let after: Vec<usize> = pk.iter().map(|(_, t)| *t).collect();
        rec_before = complete(&after);
        before = after;
        if nd && k + 1 < n_packets && r.chance(1, 3) {
            non_data(&mut bytes, r, &mut patches, &mut index_rel, &data_packet_rels, stats);
            stats.non_data_middle = true;
            if r.chance(1, 12) {
                // more than a thousand small ignored packets in one gap between two data packets
                let many = 1030 + r.usize_below(600);
                for _ in 0..many {
                    let words = 1 + r.usize_below(2);
                    let mut p = vec![0u8; 4 * words];
                    p[0] = 2;
                    let l = (p.len() - 1) as u16;
                    p[2..4].copy_from_slice(&l.to_le_bytes());
                    bytes.extend_from_slice(&p);
                }
                stats.ignored_packets += many as u64;
                stats.long_run_of_non_data = true;
            }
        }
    }
    let _ = before;
    if nd && (r.chance(1, 3) || (index_rel.is_none() && r.chance(1, 2))) {
        // libE57Format 3.x ends sections with an index packet
        let entries: Vec<(u64, u64)> = data_packet_rels.iter().take(4).cloned().collect();
        let (p, pp) = index_packet(&entries, 0);
        let base = bytes.len();
        index_rel = Some(base as u64);
        for (pos, rel) in pp {
            patches.push((base + pos, rel));
        }
        bytes.extend_from_slice(&p);
        stats.index_packets += 1;
        stats.non_data_last = true;
    }
    let len = bytes.len() as u64;
    bytes[8..16].copy_from_slice(&len.to_le_bytes());
    match data_rel {
        Some(rel) => patches.push((16, rel)),
        None => {
            // no records: 0 (libE57Format) or the section end when something follows
            if r.chance(1, 2) {
                patches.push((16, u64::MAX)); // marker: section end, resolved at placement if legal
            }
        }
    }
    if let Some(rel) = index_rel {
        patches.push((24, rel));
    }
    Section { bytes, patches, kind: SecKind::Cv(0) }
}

// ------------------------------------------------------------------ XML

struct X<'a> {
    out: String,
    r: &'a mut Rng,
    lexical: bool,
    omit: bool,
}

fn esc_attr(v: &str, q: char) -> String {
    let mut s = String::new();
    for c in v.chars() {
        match c {
            '&' => s.push_str("&amp;"),
            '<' => s.push_str("&lt;"),
            '"' if q == '"' => s.push_str("&quot;"),
            '\'' if q == '\'' => s.push_str("&apos;"),
            '\n' => s.push_str("&#10;"),
            '\t' => s.push_str("&#9;"),
            c => s.push(c),
        }
    }
    s
}

impl<'a> X<'a> {
    /// Reorder the child segments emitted since `start` (segment ends in `marks`): the children of
    /// an E57 Structure are found by name, their order is free.
    fn shuffle_children(&mut self, start: usize, marks: &[usize]) {
        if !self.lexical || marks.len() < 2 || !self.r.chance(1, 2) {
            return;
        }
        let mut segs: Vec<String> = Vec::new();
        let mut from = start;
        for m in marks {
            segs.push(self.out[from..*m].to_string());
            from = *m;
        }
        let tail = self.out[from..].to_string();
        for i in (1..segs.len()).rev() {
            let j = self.r.usize_below(i + 1);
            segs.swap(i, j);
        }
        self.out.truncate(start);
        for s in segs {
            self.out.push_str(&s);
        }
        self.out.push_str(&tail);
    }
    fn sep(&mut self) {
        if !self.lexical {
            self.out.push('\n');
            return;
        }
        match self.r.below(6) {
            0 => {}
            1 => self.out.push('\n'),
            2 => self.out.push_str("\n  "),
            3 => self.out.push_str("\r\n\t"),
            4 => self.out.push_str(" <!-- note: <tag> & stuff --> "),
            _ => self.out.push_str("\n<?producer hint?>\n"),
        }
    }
    fn attrs(&mut self, attrs: &[(&str, String)]) -> String {
        let mut v: Vec<(&str, String)> = attrs.to_vec();
        if self.lexical && v.len() > 1 && self.r.chance(1, 2) {
            let k = self.r.usize_below(v.len());
            v.rotate_left(k);
        }
        let mut s = String::new();
        for (n, val) in v {
            let q = if self.lexical && self.r.chance(1, 3) { '\'' } else { '"' };
            let ws = if self.lexical && self.r.chance(1, 5) { "  " } else { " " };
            let eq = if self.lexical && self.r.chance(1, 6) { " = " } else { "=" };
            s.push_str(&format!("{ws}{n}{eq}{q}{}{q}", esc_attr(&val, q)));
        }
        s
    }
    fn open(&mut self, tag: &str, attrs: &[(&str, String)]) {
        let a = self.attrs(attrs);
        let tail = if self.lexical && self.r.chance(1, 6) { " " } else { "" };
        self.out.push_str(&format!("<{tag}{a}{tail}>"));
        self.sep();
    }
    fn close(&mut self, tag: &str) {
        let tail = if self.lexical && self.r.chance(1, 6) { " " } else { "" };
        self.out.push_str(&format!("</{tag}{tail}>"));
        self.sep();
    }
    fn leaf(&mut self, tag: &str, attrs: &[(&str, String)], content: &str, may_be_empty_tag: bool) {
        let a = self.attrs(attrs);
        if content.is_empty() && may_be_empty_tag && self.lexical && self.r.chance(1, 2) {
            self.out.push_str(&format!("<{tag}{a}/>"));
        } else {
            self.out.push_str(&format!("<{tag}{a}>{content}</{tag}>"));
        }
        self.sep();
    }
    fn string(&mut self, tag: &str, v: &str) {
        let style = if self.lexical { self.r.below(4) } else { 0 };
        let content = match style {
            0 => format!("<![CDATA[{}]]>", v.replace("]]>", "]]]]><![CDATA[>")),
            1 => v.replace('&', "&amp;").replace('<', "&lt;").replace('>', "&gt;").replace('\r', "&#13;"),
            2 => {
                // character references for non-ASCII and markup characters
                let mut s = String::new();
                for c in v.chars() {
                    if c == '&' || c == '<' || c == '>' || c == '\r' || (c as u32) > 0x7e {
                        s.push_str(&format!("&#x{:X};", c as u32));
                    } else {
                        s.push(c);
                    }
                }
                s
            }
            _ => {
                // text followed by a CDATA section
                let cut = v.char_indices().nth(v.chars().count() / 2).map(|(i, _)| i).unwrap_or(0);
                let (a, b) = v.split_at(cut);
                format!("{}<![CDATA[{}]]>", a.replace('&', "&amp;").replace('<', "&lt;").replace('>', "&gt;"), b.replace("]]>", "]]]]><![CDATA[>"))
            }
        };
        let content = if v.is_empty() { String::new() } else { content };
        self.leaf(tag, &[("type", "String".into())], &content, true);
    }
    fn float_text(&mut self, v: f64) -> String {
        if !self.lexical || !v.is_finite() {
            return format!("{v}");
        }
        match self.r.below(4) {
            0 => format!("{v}"),
            1 => format!("{v:e}"),
            2 => format!("{v:.17e}"),
            _ => {
                if v == 0.0 && !v.is_sign_negative() {
                    String::new()
                } else {
                    format!("{v:?}")
                }
            }
        }
    }
    fn float(&mut self, tag: &str, v: f64) {
        let t = self.float_text(v);
        self.leaf(tag, &[("type", "Float".into())], &t, true);
    }
    fn int(&mut self, tag: &str, v: i64) {
        let t = if v == 0 && self.lexical && self.r.chance(1, 3) { String::new() } else { v.to_string() };
        self.leaf(tag, &[("type", "Integer".into())], &t, true);
    }
    fn date_time(&mut self, tag: &str, d: &DT) {
        self.open(tag, &[("type", "Structure".into())]);
        // never the empty-element form here: libE57Format writes an empty dateTimeValue for an
        // unset date and readers (including the crate) treat it as "no date", not as 0.0
        let t = format!("{}", d.gps.f());
        self.leaf("dateTimeValue", &[("type", "Float".into())], &t, false);
        let a = (d.atomic as i64).to_string();
        self.leaf("isAtomicClockReferenced", &[("type", "Integer".into())], &a, false);
        self.close(tag);
    }
    fn pose(&mut self, x: &Xform) {
        self.open("pose", &[("type", "Structure".into())]);
        self.open("rotation", &[("type", "Structure".into())]);
        for (n, v) in ["w", "x", "y", "z"].iter().zip(x.rot.iter()) {
            self.float(n, v.f());
        }
        self.close("rotation");
        self.open("translation", &[("type", "Structure".into())]);
        for (n, v) in ["x", "y", "z"].iter().zip(x.tr.iter()) {
            self.float(n, v.f());
        }
        self.close("translation");
        self.close("pose");
    }
    fn limit(&mut self, tag: &str, l: &Lim) {
        match l {
            Lim::I(v) => self.leaf(tag, &[("type", "Integer".into())], &v.to_string(), false),
            Lim::SI(v) => self.leaf(tag, &[("type", "ScaledInteger".into())], &v.to_string(), false),
            Lim::S(v) => self.leaf(tag, &[("type", "Float".into()), ("precision", "single".into())], &format!("{}", v.f()), false),
            Lim::D(v) => {
                let t = self.float_text(v.f());
                let t = if t.is_empty() { "0".to_string() } else { t };
                self.leaf(tag, &[("type", "Float".into())], &t, false)
            }
        }
    }
    fn record(&mut self, rec: &Rec) {
        let tag = rec.name.tag();
        let mut attrs: Vec<(&str, String)> = Vec::new();
        let mut value = String::new();
        match &rec.dt {
            DType::Single { min, max } => {
                attrs.push(("type", "Float".into()));
                attrs.push(("precision", "single".into()));
                if let Some(m) = min {
                    attrs.push(("minimum", format!("{}", m.f())));
                }
                if let Some(m) = max {
                    attrs.push(("maximum", format!("{}", m.f())));
                }
            }
            DType::Double { min, max } => {
                attrs.push(("type", "Float".into()));
                if !(self.omit && self.r.chance(2, 3)) {
                    attrs.push(("precision", "double".into()));
                }
                if let Some(m) = min {
                    attrs.push(("minimum", format!("{}", m.f())));
                }
                if let Some(m) = max {
                    attrs.push(("maximum", format!("{}", m.f())));
                }
            }
            DType::Int { min, max } => {
                attrs.push(("type", "Integer".into()));
                if !(self.omit && *min == i64::MIN) {
                    attrs.push(("minimum", min.to_string()));
                }
                if !(self.omit && *max == i64::MAX) {
                    attrs.push(("maximum", max.to_string()));
                }
                value = if *min <= 0 && *max >= 0 { "0".into() } else { min.to_string() };
            }
            DType::Scaled { min, max, scale, offset } => {
                attrs.push(("type", "ScaledInteger".into()));
                if !(self.omit && *min == i64::MIN) {
                    attrs.push(("minimum", min.to_string()));
                }
                if !(self.omit && *max == i64::MAX) {
                    attrs.push(("maximum", max.to_string()));
                }
                if !(self.omit && scale.f() == 1.0) {
                    attrs.push(("scale", format!("{}", scale.f())));
                }
                if !(self.omit && offset.0 == 0) {
                    attrs.push(("offset", format!("{}", offset.f())));
                }
                value = if *min <= 0 && *max >= 0 { "0".into() } else { min.to_string() };
            }
        }
        if self.lexical && self.r.chance(1, 2) {
            value.clear();
        }
        self.leaf(&tag, &attrs, &value, true);
    }
}

fn xml_for(scene: &EncScene, layout: &Layout, r: &mut Rng, cv_off: &[u64], rep_off: &dyn Fn(usize, bool, bool) -> u64) -> String {
    let mut x = X { out: String::new(), r, lexical: layout.lexical, omit: layout.omit_defaults };
    if !(x.lexical && x.r.chance(1, 4)) {
        x.out.push_str(if x.lexical && x.r.chance(1, 2) { "<?xml version='1.0' encoding='utf-8' ?>" } else { "<?xml version=\"1.0\" encoding=\"UTF-8\"?>" });
        x.out.push('\n');
    }
    if x.lexical && x.r.chance(1, 3) {
        x.out.push_str("<!-- produced by refcodec -->\n");
    }
    let f = &scene.file;
    let mut root_attrs: Vec<(&str, String)> = vec![("type", "Structure".into())];
    let ext_names: Vec<String> = f.extensions.iter().map(|(p, _)| format!("xmlns:{p}")).collect();
    for (i, (_, url)) in f.extensions.iter().enumerate() {
        root_attrs.push((ext_names[i].as_str(), url.clone()));
    }
    root_attrs.push(("xmlns", E57_NS.into()));
    x.open("e57Root", &root_attrs);
    let root_start = x.out.len();
    let mut root_marks: Vec<usize> = Vec::new();
    x.string("formatName", FORMAT_NAME);
    root_marks.push(x.out.len());
    x.string("guid", &f.guid);
    root_marks.push(x.out.len());
    x.int("versionMajor", 1);
    root_marks.push(x.out.len());
    x.int("versionMinor", 0);
    root_marks.push(x.out.len());
    if let Some(v) = &f.library_version {
        x.string("e57LibraryVersion", v);
        root_marks.push(x.out.len());
    }
    if let Some(v) = &f.coord_meta {
        x.string("coordinateMetadata", v);
        root_marks.push(x.out.len());
    }
    if let Some(d) = &f.creation {
        x.date_time("creationDateTime", d);
        root_marks.push(x.out.len());
    }
    let skip_empty_vectors = x.lexical && x.r.chance(1, 3);
    if !(f.pcs.is_empty() && skip_empty_vectors) {
        x.open("data3D", &[("type", "Vector".into()), ("allowHeterogeneousChildren", "1".into())]);
        for (i, pc) in f.pcs.iter().enumerate() {
            x.open("vectorChild", &[("type", "Structure".into())]);
            let pc_start = x.out.len();
            let mut pc_marks: Vec<usize> = Vec::new();
            if let Some(g) = &pc.guid {
                x.string("guid", g);
                pc_marks.push(x.out.len());
            }
            let m = &pc.meta;
            // element order inside a structure is free: two orders
            let late_points = !(x.lexical && x.r.chance(1, 2));
            let points = |x: &mut X, pc: &PcRead| {
                x.open("points", &[("type", "CompressedVector".into()), ("fileOffset", cv_off[i].to_string()), ("recordCount", pc.records.to_string())]);
                x.open("prototype", &[("type", "Structure".into())]);
                for rec in &pc.proto {
                    x.record(rec);
                }
                x.close("prototype");
                if x.lexical && x.r.chance(1, 2) {
                    x.leaf("codecs", &[("type", "Vector".into()), ("allowHeterogeneousChildren", "1".into())], "", true);
                }
                x.close("points");
            };
            if !late_points {
                points(&mut x, pc);
                pc_marks.push(x.out.len());
            }
            if let Some(v) = &m.original_guids {
                x.open("originalGuids", &[("type", "Vector".into()), ("allowHeterogeneousChildren", "0".into())]);
                for g in v {
                    x.string("vectorChild", g);
                }
                x.close("originalGuids");
                pc_marks.push(x.out.len());
            }
            if let Some(b) = &pc.bounds.cartesian {
                x.open("cartesianBounds", &[("type", "Structure".into())]);
                for (n, v) in ["xMinimum", "xMaximum", "yMinimum", "yMaximum", "zMinimum", "zMaximum"].iter().zip(b.iter()) {
                    if let Some(v) = v {
                        x.float(n, v.f());
                    }
                }
                x.close("cartesianBounds");
                pc_marks.push(x.out.len());
            }
            if let Some(b) = &pc.bounds.spherical {
                x.open("sphericalBounds", &[("type", "Structure".into())]);
                for (n, v) in ["rangeMinimum", "rangeMaximum", "elevationMinimum", "elevationMaximum", "azimuthStart", "azimuthEnd"].iter().zip(b.iter()) {
                    if let Some(v) = v {
                        x.float(n, v.f());
                    }
                }
                x.close("sphericalBounds");
                pc_marks.push(x.out.len());
            }
            if let Some(b) = &pc.bounds.index {
                x.open("indexBounds", &[("type", "Structure".into())]);
                for (n, v) in ["rowMinimum", "rowMaximum", "columnMinimum", "columnMaximum", "returnMinimum", "returnMaximum"].iter().zip(b.iter()) {
                    if let Some(v) = v {
                        x.int(n, *v);
                    }
                }
                x.close("indexBounds");
                pc_marks.push(x.out.len());
            }
            if let Some(l) = &m.color_limits {
                x.open("colorLimits", &[("type", "Structure".into())]);
                for (n, v) in ["colorRedMinimum", "colorRedMaximum", "colorGreenMinimum", "colorGreenMaximum", "colorBlueMinimum", "colorBlueMaximum"].iter().zip(l.0.iter()) {
                    if let Some(v) = v {
                        x.limit(n, v);
                    }
                }
                x.close("colorLimits");
                pc_marks.push(x.out.len());
            }
            if let Some(l) = &m.intensity_limits {
                x.open("intensityLimits", &[("type", "Structure".into())]);
                if let Some(v) = &l.min {
                    x.limit("intensityMinimum", v);
                }
                if let Some(v) = &l.max {
                    x.limit("intensityMaximum", v);
                }
                x.close("intensityLimits");
                pc_marks.push(x.out.len());
            }
            for (n, v) in [
                ("name", &m.name),
                ("description", &m.description),
                ("sensorVendor", &m.sensor_vendor),
                ("sensorModel", &m.sensor_model),
                ("sensorSerialNumber", &m.sensor_serial),
                ("sensorHardwareVersion", &m.sensor_hw),
                ("sensorSoftwareVersion", &m.sensor_sw),
                ("sensorFirmwareVersion", &m.sensor_fw),
            ] {
                if let Some(v) = v {
                    x.string(n, v);
                    pc_marks.push(x.out.len());
                }
            }
            if let Some(t) = &m.transform {
                x.pose(t);
                pc_marks.push(x.out.len());
            }
            if let Some(d) = &m.acq_start {
                x.date_time("acquisitionStart", d);
                pc_marks.push(x.out.len());
            }
            if let Some(d) = &m.acq_end {
                x.date_time("acquisitionEnd", d);
                pc_marks.push(x.out.len());
            }
            for (n, v) in [("temperature", &m.temperature), ("relativeHumidity", &m.humidity), ("atmosphericPressure", &m.pressure)] {
                if let Some(v) = v {
                    x.float(n, v.f());
                    pc_marks.push(x.out.len());
                }
            }
            if late_points {
                points(&mut x, pc);
                pc_marks.push(x.out.len());
            }
            x.shuffle_children(pc_start, &pc_marks);
            x.close("vectorChild");
        }
        x.close("data3D");
        root_marks.push(x.out.len());
    }
    if !(f.images.is_empty() && skip_empty_vectors) {
        x.open("images2D", &[("type", "Vector".into()), ("allowHeterogeneousChildren", "1".into())]);
        for (i, img) in f.images.iter().enumerate() {
            x.open("vectorChild", &[("type", "Structure".into())]);
            if let Some(g) = &img.guid {
                x.string("guid", g);
            }
            for (rep, is_visual) in [(&img.visual, true), (&img.projection, false)] {
                if let Some(rep) = rep {
                    let tag = match rep.kind {
                        RepKind::Visual => "visualReferenceRepresentation",
                        RepKind::Pinhole => "pinholeRepresentation",
                        RepKind::Spherical => "sphericalRepresentation",
                        RepKind::Cylindrical => "cylindricalRepresentation",
                    };
                    x.open(tag, &[("type", "Structure".into())]);
                    let btag = if rep.format == Format::Jpeg { "jpegImage" } else { "pngImage" };
                    x.leaf(btag, &[("type", "Blob".into()), ("fileOffset", rep_off(i, is_visual, false).to_string()), ("length", rep.data_len.to_string())], "", true);
                    if let Some(ml) = rep.mask_len {
                        x.leaf("imageMask", &[("type", "Blob".into()), ("fileOffset", rep_off(i, is_visual, true).to_string()), ("length", ml.to_string())], "", true);
                    }
                    x.int("imageWidth", rep.props.width as i64);
                    x.int("imageHeight", rep.props.height as i64);
                    let names: &[&str] = match rep.kind {
                        RepKind::Visual => &[],
                        RepKind::Pinhole => &["focalLength", "pixelWidth", "pixelHeight", "principalPointX", "principalPointY"],
                        RepKind::Spherical => &["pixelWidth", "pixelHeight"],
                        RepKind::Cylindrical => &["radius", "principalPointY", "pixelWidth", "pixelHeight"],
                    };
                    for (n, v) in names.iter().zip(rep.props.floats.iter()) {
                        x.float(n, v.f());
                    }
                    x.close(tag);
                }
            }
            let m = &img.meta;
            if let Some(t) = &m.transform {
                x.pose(t);
            }
            for (n, v) in [("associatedData3DGuid", &m.pointcloud_guid), ("name", &m.name), ("description", &m.description)] {
                if let Some(v) = v {
                    x.string(n, v);
                }
            }
            if let Some(d) = &m.acquisition {
                x.date_time("acquisitionDateTime", d);
            }
            for (n, v) in [("sensorVendor", &m.sensor_vendor), ("sensorModel", &m.sensor_model), ("sensorSerialNumber", &m.sensor_serial)] {
                if let Some(v) = v {
                    x.string(n, v);
                }
            }
            x.close("vectorChild");
        }
        x.close("images2D");
        root_marks.push(x.out.len());
    }
    x.shuffle_children(root_start, &root_marks);
    x.out.push_str("</e57Root>");
    if !(x.lexical && x.r.chance(1, 2)) {
        x.out.push('\n');
    }
    x.out
}

/// Encode a scene. Pure function of (scene, layout).
pub fn encode(scene: &EncScene, layout: &Layout) -> Encoded {
    let mut r = Rng::new(layout.seed);
    let mut stats = LayoutStats::default();
    // 1. sections
    let mut sections: Vec<Section> = Vec::new();
    for (i, pc) in scene.file.pcs.iter().enumerate() {
        let mut s = cv_section(pc, layout, &mut r, &mut stats);
        s.kind = SecKind::Cv(i);
        sections.push(s);
    }
    for (i, img) in scene.file.images.iter().enumerate() {
        for (rep, is_visual) in [(&img.visual, true), (&img.projection, false)] {
            if let Some(rep) = rep {
                let empty = Vec::new();
                let data = rep.data.as_ref().unwrap_or(&empty);
                sections.push(Section { bytes: blob_section(data), patches: vec![], kind: SecKind::RepData(i, is_visual) });
                if let Some(Ok(m)) = &rep.mask {
                    sections.push(Section { bytes: blob_section(m), patches: vec![], kind: SecKind::RepMask(i, is_visual) });
                }
            }
        }
    }
    for (i, b) in scene.blobs.iter().enumerate() {
        sections.push(Section { bytes: blob_section(b), patches: vec![], kind: SecKind::Blob(i) });
    }
    // 2. order and placement; XML slot among the sections
    let mut order: Vec<usize> = (0..sections.len()).collect();
    let mut xml_slot = sections.len();
    if layout.shuffle {
        for i in (1..order.len()).rev() {
            let j = r.usize_below(i + 1);
            order.swap(i, j);
        }
        xml_slot = r.usize_below(sections.len() + 1);
    }
    // The XML refers to section offsets, so sections behind the XML need the XML length first:
    // lay out sections before the slot, then produce the XML with provisional offsets of fixed
    // decimal width for the sections behind it.
    let mut logical: Vec<u8> = vec![0u8; 48];
    let mut starts: Vec<u64> = vec![0; sections.len()];
    let pad = |logical: &mut Vec<u8>, r: &mut Rng, shuffle: bool| {
        while logical.len() % 4 != 0 {
            logical.push(0);
        }
        if shuffle {
            let words = match r.below(6) {
                0 => 1 + r.usize_below(3),
                1 => r.usize_below(300),
                _ => 0,
            };
            logical.resize(logical.len() + 4 * words, 0);
        }
    };
    let place = |logical: &mut Vec<u8>, s: &Section, starts: &mut Vec<u64>, idx: usize| {
        let start = logical.len() as u64;
        starts[idx] = start;
        let mut bytes = s.bytes.clone();
        for (pos, rel) in &s.patches {
            let phys = if *rel == u64::MAX { to_phys(start + bytes.len() as u64) } else { to_phys(start + rel) };
            bytes[*pos..*pos + 8].copy_from_slice(&phys.to_le_bytes());
        }
        logical.extend_from_slice(&bytes);
    };
    for &idx in order.iter().take(xml_slot) {
        pad(&mut logical, &mut r, layout.shuffle);
        place(&mut logical, &sections[idx], &mut starts, idx);
    }
    pad(&mut logical, &mut r, layout.shuffle);
    let xml_start = logical.len() as u64;
    // Sections behind the XML: assume a generous fixed XML size, then pad the XML region with
    // unreferenced zero bytes up to that size.
    let offsets_for = |starts: &Vec<u64>| -> (Vec<u64>, Vec<(SecKind, u64)>) {
        let mut cv = vec![0u64; scene.file.pcs.len()];
        let mut others = Vec::new();
        for (i, s) in sections.iter().enumerate() {
            match s.kind {
                SecKind::Cv(k) => cv[k] = to_phys(starts[i]),
                k => others.push((k, to_phys(starts[i]))),
            }
        }
        (cv, others)
    };
    // provisional XML to learn its size (offsets behind the XML are unknown: use max-width placeholders)
    let mut prov = starts.clone();
    for &idx in order.iter().skip(xml_slot) {
        prov[idx] = 900_000_000_000;
    }
    let (cv0, oth0) = offsets_for(&prov);
    let lookup = |oth: &Vec<(SecKind, u64)>, i: usize, vis: bool, mask: bool| -> u64 {
        oth.iter().find(|(k, _)| *k == if mask { SecKind::RepMask(i, vis) } else { SecKind::RepData(i, vis) }).map(|(_, o)| *o).unwrap_or(0)
    };
    let xml_rng_seed = r.next_u64();
    let xml0 = xml_for(scene, layout, &mut Rng::new(xml_rng_seed), &cv0, &|i, v, m| lookup(&oth0, i, v, m));
    let reserve = (xml0.len() + 64).div_ceil(4) * 4;
    // lay out the sections behind the reserved XML region
    let mut tail: Vec<u8> = Vec::new();
    {
        let base = xml_start as usize + reserve;
        let mut cursor = base;
        for &idx in order.iter().skip(xml_slot) {
            if layout.shuffle {
                let words = match r.below(6) {
                    0 => 1 + r.usize_below(3),
                    1 => r.usize_below(300),
                    _ => 0,
                };
                cursor += 4 * words;
            }
            tail.resize(cursor - base, 0);
            let start = cursor as u64;
            starts[idx] = start;
            let s = &sections[idx];
            let mut bytes = s.bytes.clone();
            for (pos, rel) in &s.patches {
                let phys = if *rel == u64::MAX { to_phys(start + bytes.len() as u64) } else { to_phys(start + rel) };
                bytes[*pos..*pos + 8].copy_from_slice(&phys.to_le_bytes());
            }
            tail.extend_from_slice(&bytes);
            cursor += bytes.len();
        }
    }
    let (cv1, oth1) = offsets_for(&starts);
    let xml = xml_for(scene, layout, &mut Rng::new(xml_rng_seed), &cv1, &|i, v, m| lookup(&oth1, i, v, m));
    debug_assert!(xml.len() <= reserve);
    logical.extend_from_slice(xml.as_bytes());
    logical.resize(xml_start as usize + reserve, 0);
    logical.extend_from_slice(&tail);
    // an empty cloud whose data offset is the section end must not be the very end of the file
    while logical.len() % 4 != 0 {
        logical.push(0);
    }
    logical.extend_from_slice(&[0u8; 8]);
    let pages = logical.len().div_ceil(1020);
    let phys_len = (pages * 1024) as u64;
    logical[0..8].copy_from_slice(b"ASTM-E57");
    logical[8..12].copy_from_slice(&1u32.to_le_bytes());
    logical[12..16].copy_from_slice(&0u32.to_le_bytes());
    logical[16..24].copy_from_slice(&phys_len.to_le_bytes());
    logical[24..32].copy_from_slice(&to_phys(xml_start).to_le_bytes());
    logical[32..40].copy_from_slice(&(xml.len() as u64).to_le_bytes());
    logical[40..48].copy_from_slice(&1024u64.to_le_bytes());
    let mut blob_descs = vec![(0u64, 0u64); scene.blobs.len()];
    for (i, s) in sections.iter().enumerate() {
        stats.section_residues.push(starts[i] % 1020);
        if let SecKind::Blob(k) = s.kind {
            blob_descs[k] = (to_phys(starts[i]), scene.blobs[k].len() as u64);
        }
    }
    Encoded { image: page_up(&logical), blob_descs, stats }
}
