//! Independent E57 decoder and fsck, written from the format description (DESIGN.md appendix A).
//! `analyse` decodes an image into the plain-data model and collects every rule violation.

use super::page::{self, PAGE, PAYLOAD};
use super::xml::{self, Elem};
use crate::model::*;

pub const E57_NS: &str = "http://www.astm.org/COMMIT/E57/2010-e57-v1.0";
pub const FORMAT_NAME: &str = "ASTM E57 3D Imaging Data File";

#[derive(Clone, Debug, Default)]
pub struct Header {
    pub major: u32,
    pub minor: u32,
    pub phys_length: u64,
    pub xml_offset: u64,
    pub xml_length: u64,
    pub page_size: u64,
}

#[derive(Clone, Debug)]
pub struct PacketInfo {
    /// logical offset of the packet
    pub logical: u64,
    /// 0 index, 1 data, 2 ignored
    pub kind: u8,
    pub length: usize,
    pub stream_lens: Vec<usize>,
}

#[derive(Clone, Debug, Default)]
pub struct CvInfo {
    pub phys_offset: u64,
    pub logical: u64,
    pub section_length: u64,
    pub data_offset: u64,
    pub index_offset: u64,
    pub packets: Vec<PacketInfo>,
    pub record_count: u64,
}

#[derive(Clone, Debug, Default)]
pub struct BlobInfo {
    pub phys_offset: u64,
    pub logical: u64,
    pub section_length: u64,
    pub data_len: u64,
    pub what: String,
}

#[derive(Clone, Debug, Default)]
pub struct Decoded {
    pub header: Header,
    pub xml: String,
    pub xml_logical: u64,
    pub file: FileRead,
    pub cvs: Vec<CvInfo>,
    pub blobs: Vec<BlobInfo>,
    pub format_name: String,
    pub version: (i64, i64),
}

struct Ctx<'a> {
    logical: &'a [u8],
    problems: Vec<String>,
    /// occupied logical ranges (start, end, what) for the disjointness rule
    ranges: Vec<(u64, u64, String)>,
}

impl<'a> Ctx<'a> {
    fn p(&mut self, s: String) {
        if self.problems.len() < 200 {
            self.problems.push(s);
        }
    }
    fn slice(&self, from: u64, len: u64) -> Option<&'a [u8]> {
        let end = from.checked_add(len)?;
        if end as usize > self.logical.len() {
            return None;
        }
        Some(&self.logical[from as usize..end as usize])
    }
}

fn le64(b: &[u8]) -> u64 {
    u64::from_le_bytes(b[..8].try_into().unwrap_or([0; 8]))
}
fn le32(b: &[u8]) -> u32 {
    u32::from_le_bytes(b[..4].try_into().unwrap_or([0; 4]))
}
fn le16(b: &[u8]) -> u16 {
    u16::from_le_bytes(b[..2].try_into().unwrap_or([0; 2]))
}

fn e<'b>(parent: &'b Elem, local: &str) -> Option<&'b Elem> {
    parent.child(E57_NS, local)
}

fn typed<'b>(c: &mut Ctx, parent: &'b Elem, local: &str, ty: &str) -> Option<&'b Elem> {
    let el = e(parent, local)?;
    match el.attr("type") {
        Some(t) if t == ty => {}
        other => c.p(format!("element <{local}> has type {other:?}, expected \"{ty}\"")),
    }
    Some(el)
}

fn string(c: &mut Ctx, parent: &Elem, local: &str) -> Option<String> {
    typed(c, parent, local, "String").map(|el| el.text())
}

fn parse_f64(c: &mut Ctx, text: &str, what: &str) -> f64 {
    let t = text.trim();
    if t.is_empty() {
        return 0.0;
    }
    match t.parse::<f64>() {
        Ok(v) => v,
        Err(_) => {
            c.p(format!("{what}: '{t}' is not a floating point number"));
            0.0
        }
    }
}

fn parse_i64(c: &mut Ctx, text: &str, what: &str) -> i64 {
    let t = text.trim();
    if t.is_empty() {
        return 0;
    }
    match t.parse::<i64>() {
        Ok(v) => v,
        Err(_) => {
            c.p(format!("{what}: '{t}' is not an integer"));
            0
        }
    }
}

fn float(c: &mut Ctx, parent: &Elem, local: &str) -> Option<B64> {
    let el = typed(c, parent, local, "Float")?;
    Some(B64::of(parse_f64(c, &el.text(), local)))
}

fn integer(c: &mut Ctx, parent: &Elem, local: &str) -> Option<i64> {
    let el = typed(c, parent, local, "Integer")?;
    Some(parse_i64(c, &el.text(), local))
}

fn date_time(c: &mut Ctx, parent: &Elem, local: &str) -> Option<DT> {
    let el = typed(c, parent, local, "Structure")?;
    let gps = float(c, el, "dateTimeValue").unwrap_or(B64::of(0.0));
    let atomic = integer(c, el, "isAtomicClockReferenced").unwrap_or(0) == 1;
    Some(DT { gps, atomic })
}

fn transform(c: &mut Ctx, parent: &Elem, local: &str) -> Option<Xform> {
    let el = typed(c, parent, local, "Structure")?;
    let mut rot = [B64::of(1.0), B64::of(0.0), B64::of(0.0), B64::of(0.0)];
    let mut tr = [B64::of(0.0); 3];
    if let Some(r) = typed(c, el, "rotation", "Structure") {
        for (i, n) in ["w", "x", "y", "z"].iter().enumerate() {
            match float(c, r, n) {
                Some(v) => rot[i] = v,
                None => c.p(format!("pose rotation lacks <{n}>")),
            }
        }
    }
    if let Some(t) = typed(c, el, "translation", "Structure") {
        for (i, n) in ["x", "y", "z"].iter().enumerate() {
            match float(c, t, n) {
                Some(v) => tr[i] = v,
                None => c.p(format!("pose translation lacks <{n}>")),
            }
        }
    }
    Some(Xform { rot, tr })
}

fn limit(c: &mut Ctx, parent: &Elem, local: &str) -> Option<Lim> {
    let el = e(parent, local)?;
    let text = el.text();
    match el.attr("type") {
        Some("Integer") => Some(Lim::I(parse_i64(c, &text, local))),
        Some("ScaledInteger") => Some(Lim::SI(parse_i64(c, &text, local))),
        Some("Float") => {
            if el.attr("precision") == Some("single") {
                let t = text.trim();
                let v = if t.is_empty() { 0.0 } else { t.parse::<f32>().unwrap_or_else(|_| { c.p(format!("{local}: bad single '{t}'")); 0.0 }) };
                Some(Lim::S(B32::of(v)))
            } else {
                Some(Lim::D(B64::of(parse_f64(c, &text, local))))
            }
        }
        other => {
            c.p(format!("limit <{local}> has unsupported type {other:?}"));
            None
        }
    }
}

fn attr_num<T: std::str::FromStr>(c: &mut Ctx, el: &Elem, name: &str) -> Option<T> {
    let v = el.attr(name)?;
    match v.trim().parse::<T>() {
        Ok(x) => Some(x),
        Err(_) => {
            c.p(format!("attribute {name}=\"{v}\" of <{}> is not a number", el.qname()));
            None
        }
    }
}

fn record_type(c: &mut Ctx, el: &Elem) -> Option<DType> {
    match el.attr("type") {
        Some("Float") => match el.attr("precision").unwrap_or("double") {
            "double" => Some(DType::Double {
                min: attr_num::<f64>(c, el, "minimum").map(B64::of),
                max: attr_num::<f64>(c, el, "maximum").map(B64::of),
            }),
            "single" => Some(DType::Single {
                min: attr_num::<f32>(c, el, "minimum").map(B32::of),
                max: attr_num::<f32>(c, el, "maximum").map(B32::of),
            }),
            other => {
                c.p(format!("record <{}> has unknown precision '{other}'", el.qname()));
                None
            }
        },
        Some("Integer") => {
            let min = attr_num::<i64>(c, el, "minimum").unwrap_or(i64::MIN);
            let max = attr_num::<i64>(c, el, "maximum").unwrap_or(i64::MAX);
            if max < min {
                c.p(format!("record <{}>: maximum {max} < minimum {min}", el.qname()));
            }
            Some(DType::Int { min, max })
        }
        Some("ScaledInteger") => {
            let min = attr_num::<i64>(c, el, "minimum").unwrap_or(i64::MIN);
            let max = attr_num::<i64>(c, el, "maximum").unwrap_or(i64::MAX);
            if max < min {
                c.p(format!("record <{}>: maximum {max} < minimum {min}", el.qname()));
            }
            let scale = attr_num::<f64>(c, el, "scale").unwrap_or(1.0);
            let offset = attr_num::<f64>(c, el, "offset").unwrap_or(0.0);
            Some(DType::Scaled { min, max, scale: B64::of(scale), offset: B64::of(offset) })
        }
        other => {
            c.p(format!("record <{}> has unsupported type {other:?}", el.qname()));
            None
        }
    }
}

fn record_name(el: &Elem) -> Name {
    if el.ns == E57_NS {
        if let Some(i) = STD_NAMES.iter().position(|n| *n == el.local) {
            return Name::Std(i as u8);
        }
    }
    Name::Ext { ns: el.prefix.clone(), name: el.local.clone() }
}

/// Physical offset -> logical, recording a problem when it points into checksum bytes or is unaligned.
fn locate(c: &mut Ctx, phys: u64, what: &str) -> Option<u64> {
    match page::to_logical(phys) {
        None => {
            c.p(format!("{what}: physical offset {phys} points into checksum bytes"));
            None
        }
        Some(l) => {
            if l % 4 != 0 {
                c.p(format!("{what}: logical offset {l} (physical {phys}) is not 4-byte aligned"));
            }
            if l as usize >= c.logical.len() {
                c.p(format!("{what}: offset {phys} is beyond the end of the file"));
                return None;
            }
            Some(l)
        }
    }
}

fn unpack(stream: &[u8], dt: &DType, count: u64, c: &mut Ctx, what: &str) -> Vec<Val> {
    let bits = dt.bits() as u64;
    let need = bits * count;
    let have = stream.len() as u64 * 8;
    if need > have {
        c.p(format!("{what}: stream has {have} bits, {count} values of {bits} bits need {need}"));
    }
    // No rule about surplus bytes or padding bits at the end of a stream: the bundled
    // E57RefImpl file bunnyInt19.e57 carries one surplus byte per stream (calibration).
    let n = if bits == 0 { count } else { (have / bits).min(count) };
    let n = n.min(50_000_000);
    let mut out = Vec::with_capacity(n as usize);
    let mut bitpos: u64 = 0;
    for _ in 0..n {
        let mut v: u64 = 0;
        for b in 0..bits {
            let bp = bitpos + b;
            let byte = stream[(bp / 8) as usize];
            if (byte >> (bp % 8)) & 1 != 0 {
                v |= 1u64 << b;
            }
        }
        bitpos += bits;
        out.push(match dt {
            DType::Single { .. } => Val::S(v as u32),
            DType::Double { .. } => Val::D(v),
            DType::Int { min, .. } => Val::I((*min as i128 + v as i128) as i64),
            DType::Scaled { min, .. } => Val::SI((*min as i128 + v as i128) as i64),
        });
    }
    out
}

fn read_cv(c: &mut Ctx, phys: u64, records: u64, proto: &[Rec], what: &str) -> (CvInfo, Result<Vec<Point>, String>) {
    let mut info = CvInfo { phys_offset: phys, record_count: records, ..Default::default() };
    let l = match locate(c, phys, what) {
        Some(l) => l,
        None => return (info, Err("section offset invalid".into())),
    };
    info.logical = l;
    let h = match c.slice(l, 32) {
        Some(h) => h,
        None => {
            c.p(format!("{what}: section header beyond end of file"));
            return (info, Err("section header beyond end".into()));
        }
    };
    if h[0] != 1 {
        c.p(format!("{what}: section id {} instead of 1", h[0]));
        return (info, Err("not a compressed vector section".into()));
    }
    if h[1..8].iter().any(|b| *b != 0) {
        c.p(format!("{what}: reserved bytes of the section header are not zero"));
    }
    info.section_length = le64(&h[8..16]);
    info.data_offset = le64(&h[16..24]);
    info.index_offset = le64(&h[24..32]);
    if info.section_length % 4 != 0 || info.section_length < 32 {
        c.p(format!("{what}: section length {} is not a multiple of 4 >= 32", info.section_length));
    }
    let end = l + info.section_length;
    if end as usize > c.logical.len() {
        c.p(format!("{what}: section (logical {l}..{end}) extends beyond the file"));
        return (info, Err("section beyond end".into()));
    }
    c.ranges.push((l, end, what.to_string()));
    let mut streams: Vec<Vec<u8>> = vec![Vec::new(); proto.len()];
    let start = if info.data_offset == 0 {
        if records != 0 {
            c.p(format!("{what}: data offset 0 with {records} records"));
        }
        None
    } else {
        match locate(c, info.data_offset, &format!("{what} data offset")) {
            Some(d) => {
                if d < l + 32 || d > end {
                    c.p(format!("{what}: data offset (logical {d}) lies outside the section {l}..{end}"));
                    None
                } else {
                    Some(d)
                }
            }
            None => None,
        }
    };
    let mut index_hit = info.index_offset == 0;
    let index_logical = if info.index_offset != 0 { locate(c, info.index_offset, &format!("{what} index offset")) } else { None };
    // Packets chain from the first packet behind the header to the section end.
    let mut pos = l + 32;
    let mut data_offset_hit = start.is_none() || start == Some(end);
    while pos < end {
        let hd = match c.slice(pos, 4) {
            Some(h) => h,
            None => break,
        };
        let kind = hd[0];
        let length = le16(&hd[2..4]) as usize + 1;
        if kind > 2 {
            c.p(format!("{what}: unknown packet type {kind} at logical {pos}"));
            break;
        }
        if length % 4 != 0 {
            c.p(format!("{what}: packet at logical {pos} has length {length}, not a multiple of 4"));
            break;
        }
        if pos + length as u64 > end {
            c.p(format!("{what}: packet at logical {pos} (length {length}) overruns the section end {end}"));
            break;
        }
        if Some(pos) == start {
            data_offset_hit = true;
        }
        if Some(pos) == index_logical {
            index_hit = true;
            if kind != 0 {
                c.p(format!("{what}: index offset points to a packet of type {kind}"));
            }
        }
        let body = c.slice(pos, length as u64).unwrap_or(&[]);
        let mut pi = PacketInfo { logical: pos, kind, length, stream_lens: vec![] };
        if kind == 1 {
            if body[1] & 0xFE != 0 {
                c.p(format!("{what}: data packet at logical {pos} has reserved flag bits set ({:#04x})", body[1]));
            }
            let count = le16(&body[4..6]) as usize;
            if count != proto.len() {
                c.p(format!("{what}: data packet at logical {pos} has {count} streams, prototype has {}", proto.len()));
                break;
            }
            if 6 + 2 * count > length {
                c.p(format!("{what}: data packet at logical {pos} too short for its stream table"));
                break;
            }
            let mut off = 6 + 2 * count;
            let mut ok = true;
            for i in 0..count {
                let sl = le16(&body[6 + 2 * i..8 + 2 * i]) as usize;
                pi.stream_lens.push(sl);
                if off + sl > length {
                    c.p(format!("{what}: data packet at logical {pos}: stream {i} overruns the packet"));
                    ok = false;
                    break;
                }
                if start.map(|s| pos >= s).unwrap_or(false) {
                    streams[i].extend_from_slice(&body[off..off + sl]);
                }
                off += sl;
            }
            if !ok {
                break;
            }
            if length - off > 3 {
                c.p(format!("{what}: data packet at logical {pos} has {} bytes of padding (max 3)", length - off));
            }
            if body[off..].iter().any(|b| *b != 0) {
                c.p(format!("{what}: data packet at logical {pos}: padding is not zero"));
            }
            if start.map(|s| pos < s).unwrap_or(true) {
                c.p(format!("{what}: data packet at logical {pos} lies before the data offset"));
            }
        } else if kind == 0 {
            if length < 16 {
                c.p(format!("{what}: index packet at logical {pos} shorter than its header"));
            }
        }
        info.packets.push(pi);
        pos += length as u64;
    }
    if pos != end {
        c.p(format!("{what}: packets end at logical {pos}, section ends at {end}"));
    }
    if !data_offset_hit {
        c.p(format!("{what}: data offset {} does not land on a packet header", info.data_offset));
    }
    if !index_hit {
        c.p(format!("{what}: index offset {} does not land on a packet header", info.index_offset));
    }
    // decode
    let mut columns: Vec<Vec<Val>> = Vec::new();
    for (i, r) in proto.iter().enumerate() {
        columns.push(unpack(&streams[i], &r.dt, records, c, &format!("{what} stream {i} ({})", r.name.tag())));
    }
    let n = columns.iter().map(|col| col.len() as u64).min().unwrap_or(0).min(records);
    if proto.is_empty() && records > 0 {
        return (info, Err("empty prototype".into()));
    }
    if n < records {
        return (info, Err(format!("only {n} of {records} records decodable")));
    }
    let mut pts: Vec<Point> = Vec::with_capacity(n as usize);
    for k in 0..n as usize {
        pts.push(columns.iter().map(|col| col[k]).collect());
    }
    (info, Ok(pts))
}

fn read_blob(c: &mut Ctx, el: &Elem, what: &str) -> (BlobInfo, u64, Result<Vec<u8>, String>) {
    let mut info = BlobInfo { what: what.to_string(), ..Default::default() };
    if el.attr("type") != Some("Blob") {
        c.p(format!("{what}: type is not Blob"));
    }
    let off: u64 = attr_num(c, el, "fileOffset").unwrap_or(0);
    let len: u64 = attr_num(c, el, "length").unwrap_or(0);
    info.phys_offset = off;
    info.data_len = len;
    let r = blob_at(c, off, len, what, &mut info);
    (info, len, r)
}

fn blob_at(c: &mut Ctx, off: u64, len: u64, what: &str, info: &mut BlobInfo) -> Result<Vec<u8>, String> {
    let l = locate(c, off, what).ok_or_else(|| "blob offset invalid".to_string())?;
    info.logical = l;
    let h = c.slice(l, 16).ok_or_else(|| "blob header beyond end".to_string())?;
    if h[0] != 0 {
        c.p(format!("{what}: section id {} instead of 0", h[0]));
        return Err("not a blob section".into());
    }
    if h[1..8].iter().any(|b| *b != 0) {
        c.p(format!("{what}: reserved bytes of the blob section header are not zero"));
    }
    info.section_length = le64(&h[8..16]);
    let want = (16 + len).div_ceil(4) * 4;
    if info.section_length != want {
        c.p(format!("{what}: blob section length {} but header + {len} data bytes padded to 4 is {want}", info.section_length));
    }
    let data = c.slice(l + 16, len).ok_or_else(|| "blob data beyond end".to_string())?;
    let padded_end = l + want;
    if let Some(pad) = c.slice(l + 16 + len, want - 16 - len) {
        if pad.iter().any(|b| *b != 0) {
            c.p(format!("{what}: blob padding is not zero"));
        }
    }
    c.ranges.push((l, padded_end, what.to_string()));
    Ok(data.to_vec())
}

fn representation(c: &mut Ctx, img: &Elem, local: &str, kind: RepKind, what: &str, blobs: &mut Vec<BlobInfo>) -> Option<RepRead> {
    let el = typed(c, img, local, "Structure")?;
    let (format, bel) = if let Some(b) = e(el, "jpegImage") {
        (Format::Jpeg, b)
    } else if let Some(b) = e(el, "pngImage") {
        (Format::Png, b)
    } else {
        c.p(format!("{what} {local}: neither jpegImage nor pngImage"));
        return None;
    };
    let (bi, data_len, data) = read_blob(c, bel, &format!("{what} {local} image blob"));
    blobs.push(bi);
    let (mask_len, mask) = match e(el, "imageMask") {
        Some(m) => {
            let (bi, l, d) = read_blob(c, m, &format!("{what} {local} mask blob"));
            blobs.push(bi);
            (Some(l), Some(d))
        }
        None => (None, None),
    };
    let width = integer(c, el, "imageWidth").unwrap_or_else(|| {
        c.p(format!("{what} {local}: imageWidth missing"));
        0
    });
    let height = integer(c, el, "imageHeight").unwrap_or_else(|| {
        c.p(format!("{what} {local}: imageHeight missing"));
        0
    });
    let names: &[&str] = match kind {
        RepKind::Visual => &[],
        RepKind::Pinhole => &["focalLength", "pixelWidth", "pixelHeight", "principalPointX", "principalPointY"],
        RepKind::Spherical => &["pixelWidth", "pixelHeight"],
        RepKind::Cylindrical => &["radius", "principalPointY", "pixelWidth", "pixelHeight"],
    };
    let mut floats = Vec::new();
    for n in names {
        match float(c, el, n) {
            Some(v) => floats.push(v),
            None => {
                c.p(format!("{what} {local}: <{n}> missing"));
                floats.push(B64::of(0.0));
            }
        }
    }
    Some(RepRead {
        kind,
        format,
        props: RepProps { width: width as u32, height: height as u32, floats },
        data_len,
        data,
        mask_len,
        mask,
    })
}

/// Decode an image completely; the second value lists every rule the image breaks.
pub fn analyse(image: &[u8]) -> (Option<Decoded>, Vec<String>) {
    let mut problems = Vec::new();
    if image.is_empty() || image.len() % PAGE != 0 {
        problems.push(format!("file size {} is not a positive whole number of {PAGE}-byte pages", image.len()));
        return (None, problems);
    }
    let bad = page::bad_pages(image);
    if !bad.is_empty() {
        problems.push(format!("{} page(s) with invalid CRC-32C, first: page {}", bad.len(), bad[0]));
    }
    let mut logical = Vec::with_capacity(image.len() / PAGE * PAYLOAD);
    for pg in image.chunks(PAGE) {
        logical.extend_from_slice(&pg[..PAYLOAD]);
    }
    let mut c = Ctx { logical: &logical, problems, ranges: Vec::new() };
    let h = &logical[..48];
    if &h[0..8] != b"ASTM-E57" {
        c.p("file signature is not ASTM-E57".into());
        return (None, c.problems);
    }
    let header = Header {
        major: le32(&h[8..12]),
        minor: le32(&h[12..16]),
        phys_length: le64(&h[16..24]),
        xml_offset: le64(&h[24..32]),
        xml_length: le64(&h[32..40]),
        page_size: le64(&h[40..48]),
    };
    if header.major != 1 || header.minor != 0 {
        c.p(format!("format version {}.{} instead of 1.0", header.major, header.minor));
    }
    if header.page_size != PAGE as u64 {
        c.p(format!("page size {} instead of {PAGE}", header.page_size));
        return (None, c.problems);
    }
    if header.phys_length != image.len() as u64 {
        c.p(format!("header states file length {}, file has {} bytes", header.phys_length, image.len()));
    }
    c.ranges.push((0, 48, "file header".into()));
    let xl = match page::to_logical(header.xml_offset) {
        Some(l) => l,
        None => {
            c.p(format!("XML offset {} points into checksum bytes", header.xml_offset));
            return (None, c.problems);
        }
    };
    if xl % 4 != 0 {
        c.p(format!("XML logical offset {xl} is not 4-byte aligned"));
    }
    if header.xml_length == 0 {
        c.p("XML length is zero".into());
        return (None, c.problems);
    }
    let xml_bytes = match c.slice(xl, header.xml_length) {
        Some(b) => b,
        None => {
            c.p(format!("XML section (logical {xl} + {}) extends beyond the file", header.xml_length));
            return (None, c.problems);
        }
    };
    c.ranges.push((xl, xl + header.xml_length, "XML section".into()));
    let xml_text = match std::str::from_utf8(xml_bytes) {
        Ok(t) => t.to_string(),
        Err(err) => {
            c.p(format!("XML is not valid UTF-8: {err}"));
            return (None, c.problems);
        }
    };
    let root = match xml::parse(&xml_text) {
        Ok(r) => r,
        Err(err) => {
            c.p(format!("XML is not well-formed: {err}"));
            return (None, c.problems);
        }
    };
    // second opinion on well-formedness
    if let Err(err) = roxmltree::Document::parse(&xml_text) {
        c.p(format!("XML rejected by roxmltree: {err}"));
    }
    if root.local != "e57Root" || root.ns != E57_NS {
        c.p(format!("root element is <{}> in namespace '{}'", root.qname(), root.ns));
        return (None, c.problems);
    }
    if root.attr("type") != Some("Structure") {
        c.p("e57Root is not of type Structure".into());
    }
    let mut d = Decoded { header, xml: xml_text, xml_logical: xl, ..Default::default() };
    d.file.xml = d.xml.clone();
    d.format_name = string(&mut c, &root, "formatName").unwrap_or_default();
    if d.format_name != FORMAT_NAME {
        c.p(format!("formatName is '{}'", d.format_name));
    }
    match string(&mut c, &root, "guid") {
        Some(g) => d.file.guid = g,
        None => c.p("root guid missing".into()),
    }
    d.version = (integer(&mut c, &root, "versionMajor").unwrap_or(-1), integer(&mut c, &root, "versionMinor").unwrap_or(-1));
    if d.version != (1, 0) {
        c.p(format!("XML version {:?} instead of (1, 0)", d.version));
    }
    d.file.library_version = string(&mut c, &root, "e57LibraryVersion");
    d.file.coord_meta = string(&mut c, &root, "coordinateMetadata");
    d.file.creation = date_time(&mut c, &root, "creationDateTime");
    d.file.extensions = root.ns_decls.iter().filter(|(p, _)| !p.is_empty()).cloned().collect();

    if let Some(d3) = typed(&mut c, &root, "data3D", "Vector") {
        for (i, pc) in d3.elems().enumerate() {
            let what = format!("data3D[{i}]");
            if pc.local != "vectorChild" || pc.ns != E57_NS || pc.attr("type") != Some("Structure") {
                c.p(format!("{what}: child of data3D is <{}> type {:?}", pc.qname(), pc.attr("type")));
                continue;
            }
            let mut meta = PcMeta {
                name: string(&mut c, pc, "name"),
                description: string(&mut c, pc, "description"),
                transform: transform(&mut c, pc, "pose"),
                acq_start: date_time(&mut c, pc, "acquisitionStart"),
                acq_end: date_time(&mut c, pc, "acquisitionEnd"),
                sensor_vendor: string(&mut c, pc, "sensorVendor"),
                sensor_model: string(&mut c, pc, "sensorModel"),
                sensor_serial: string(&mut c, pc, "sensorSerialNumber"),
                sensor_hw: string(&mut c, pc, "sensorHardwareVersion"),
                sensor_sw: string(&mut c, pc, "sensorSoftwareVersion"),
                sensor_fw: string(&mut c, pc, "sensorFirmwareVersion"),
                temperature: float(&mut c, pc, "temperature"),
                humidity: float(&mut c, pc, "relativeHumidity"),
                pressure: float(&mut c, pc, "atmosphericPressure"),
                ..Default::default()
            };
            if let Some(og) = typed(&mut c, pc, "originalGuids", "Vector") {
                let mut v = Vec::new();
                for g in og.elems() {
                    if g.local == "vectorChild" && g.attr("type") == Some("String") {
                        v.push(g.text());
                    } else {
                        c.p(format!("{what}: originalGuids child <{}> is not a String vectorChild", g.qname()));
                    }
                }
                meta.original_guids = Some(v);
            }
            if let Some(il) = typed(&mut c, pc, "intensityLimits", "Structure") {
                meta.intensity_limits = Some(ILim { min: limit(&mut c, il, "intensityMinimum"), max: limit(&mut c, il, "intensityMaximum") });
            }
            if let Some(cl) = typed(&mut c, pc, "colorLimits", "Structure") {
                meta.color_limits = Some(CLim([
                    limit(&mut c, cl, "colorRedMinimum"),
                    limit(&mut c, cl, "colorRedMaximum"),
                    limit(&mut c, cl, "colorGreenMinimum"),
                    limit(&mut c, cl, "colorGreenMaximum"),
                    limit(&mut c, cl, "colorBlueMinimum"),
                    limit(&mut c, cl, "colorBlueMaximum"),
                ]));
            }
            let mut bounds = Bounds::default();
            if let Some(b) = typed(&mut c, pc, "cartesianBounds", "Structure") {
                let names = ["xMinimum", "xMaximum", "yMinimum", "yMaximum", "zMinimum", "zMaximum"];
                let mut a = [None; 6];
                for (k, n) in names.iter().enumerate() {
                    a[k] = float(&mut c, b, n);
                }
                bounds.cartesian = Some(a);
            }
            if let Some(b) = typed(&mut c, pc, "sphericalBounds", "Structure") {
                let names = ["rangeMinimum", "rangeMaximum", "elevationMinimum", "elevationMaximum", "azimuthStart", "azimuthEnd"];
                let mut a = [None; 6];
                for (k, n) in names.iter().enumerate() {
                    a[k] = float(&mut c, b, n);
                }
                bounds.spherical = Some(a);
            }
            if let Some(b) = typed(&mut c, pc, "indexBounds", "Structure") {
                let names = ["rowMinimum", "rowMaximum", "columnMinimum", "columnMaximum", "returnMinimum", "returnMaximum"];
                let mut a = [None; 6];
                for (k, n) in names.iter().enumerate() {
                    a[k] = integer(&mut c, b, n);
                }
                bounds.index = Some(a);
            }
            let guid = string(&mut c, pc, "guid");
            let pts_el = match typed(&mut c, pc, "points", "CompressedVector") {
                Some(p) => p,
                None => {
                    c.p(format!("{what}: no points element"));
                    continue;
                }
            };
            let off: u64 = attr_num(&mut c, pts_el, "fileOffset").unwrap_or_else(|| {
                c.p(format!("{what}: points without fileOffset"));
                0
            });
            let records: u64 = attr_num(&mut c, pts_el, "recordCount").unwrap_or_else(|| {
                c.p(format!("{what}: points without recordCount"));
                0
            });
            let mut proto = Vec::new();
            match typed(&mut c, pts_el, "prototype", "Structure") {
                Some(pr) => {
                    for r in pr.elems() {
                        if let Some(dt) = record_type(&mut c, r) {
                            proto.push(Rec { name: record_name(r), dt });
                        }
                    }
                }
                None => c.p(format!("{what}: points without prototype")),
            }
            let (info, points) = read_cv(&mut c, off, records, &proto, &what);
            d.cvs.push(info);
            d.file.pcs.push(PcRead { guid, proto, records, meta, bounds, points });
        }
    }
    if let Some(i2) = typed(&mut c, &root, "images2D", "Vector") {
        for (i, img) in i2.elems().enumerate() {
            let what = format!("images2D[{i}]");
            if img.local != "vectorChild" || img.ns != E57_NS || img.attr("type") != Some("Structure") {
                c.p(format!("{what}: child of images2D is <{}>", img.qname()));
                continue;
            }
            let meta = ImgMeta {
                name: string(&mut c, img, "name"),
                description: string(&mut c, img, "description"),
                pointcloud_guid: string(&mut c, img, "associatedData3DGuid"),
                transform: transform(&mut c, img, "pose"),
                acquisition: date_time(&mut c, img, "acquisitionDateTime"),
                sensor_vendor: string(&mut c, img, "sensorVendor"),
                sensor_model: string(&mut c, img, "sensorModel"),
                sensor_serial: string(&mut c, img, "sensorSerialNumber"),
            };
            let mut blobs = Vec::new();
            let visual = representation(&mut c, img, "visualReferenceRepresentation", RepKind::Visual, &what, &mut blobs);
            let mut projection = representation(&mut c, img, "pinholeRepresentation", RepKind::Pinhole, &what, &mut blobs);
            if projection.is_none() {
                projection = representation(&mut c, img, "sphericalRepresentation", RepKind::Spherical, &what, &mut blobs);
            }
            if projection.is_none() {
                projection = representation(&mut c, img, "cylindricalRepresentation", RepKind::Cylindrical, &what, &mut blobs);
            }
            d.blobs.extend(blobs);
            d.file.images.push(ImgRead { guid: string(&mut c, img, "guid"), meta, visual, projection });
        }
    }
    // every element of the E57 namespace carries a known type attribute
    fn walk(c: &mut Ctx, el: &Elem, depth: usize) {
        if el.ns == E57_NS {
            match el.attr("type") {
                Some("Structure") | Some("Vector") | Some("String") | Some("Integer") | Some("ScaledInteger") | Some("Float") | Some("Blob") | Some("CompressedVector") => {}
                other => c.p(format!("element <{}> has type attribute {other:?}", el.qname())),
            }
        }
        if depth < 64 {
            for ch in el.elems() {
                walk(c, ch, depth + 1);
            }
        }
    }
    walk(&mut c, &root, 0);
    // sections and XML pairwise disjoint
    let mut r = c.ranges.clone();
    r.sort();
    for w in r.windows(2) {
        if w[1].0 < w[0].1 {
            c.p(format!("{} (logical {}..{}) overlaps {} ({}..{})", w[0].2, w[0].0, w[0].1, w[1].2, w[1].0, w[1].1));
        }
    }
    let problems = c.problems;
    (Some(d), problems)
}

/// Decode a blob that is not referenced from the XML (E57Writer::add_blob) by its descriptor.
pub fn standalone_blob(image: &[u8], offset: u64, length: u64) -> (Result<Vec<u8>, String>, Vec<String>) {
    if image.is_empty() || image.len() % PAGE != 0 {
        return (Err("not whole pages".into()), vec![]);
    }
    let mut logical = Vec::with_capacity(image.len() / PAGE * PAYLOAD);
    for pg in image.chunks(PAGE) {
        logical.extend_from_slice(&pg[..PAYLOAD]);
    }
    let mut c = Ctx { logical: &logical, problems: vec![], ranges: vec![] };
    let mut info = BlobInfo::default();
    let r = blob_at(&mut c, offset, length, &format!("standalone blob at {offset}"), &mut info);
    (r, c.problems)
}
