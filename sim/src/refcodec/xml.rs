//! Small XML 1.0 + namespaces parser, written for this harness (independent of roxmltree).
//! Supports what E57 metadata needs: declaration, comments, processing instructions, elements,
//! attributes, character and predefined entity references, CDATA. Document type declarations are
//! rejected (E57 XML has none). Checks well-formedness and namespace well-formedness.

#[derive(Clone, Debug, PartialEq)]
pub struct Attr {
    pub prefix: String,
    pub local: String,
    pub value: String,
}

#[derive(Clone, Debug, PartialEq)]
pub enum Node {
    Elem(Elem),
    Text(String),
}

#[derive(Clone, Debug, PartialEq, Default)]
pub struct Elem {
    pub prefix: String,
    pub local: String,
    /// resolved namespace URI ("" = none)
    pub ns: String,
    pub attrs: Vec<Attr>,
    /// namespace declarations on this element: (prefix, uri); prefix "" = default namespace
    pub ns_decls: Vec<(String, String)>,
    pub children: Vec<Node>,
}

impl Elem {
    pub fn attr(&self, local: &str) -> Option<&str> {
        self.attrs.iter().find(|a| a.prefix.is_empty() && a.local == local).map(|a| a.value.as_str())
    }
    pub fn elems(&self) -> impl Iterator<Item = &Elem> {
        self.children.iter().filter_map(|n| match n {
            Node::Elem(e) => Some(e),
            _ => None,
        })
    }
    /// first child element with this local name in namespace `ns`
    pub fn child(&self, ns: &str, local: &str) -> Option<&Elem> {
        self.elems().find(|e| e.local == local && e.ns == ns)
    }
    /// concatenated character data directly inside this element
    pub fn text(&self) -> String {
        let mut s = String::new();
        for n in &self.children {
            if let Node::Text(t) = n {
                s.push_str(t);
            }
        }
        s
    }
    pub fn qname(&self) -> String {
        if self.prefix.is_empty() {
            self.local.clone()
        } else {
            format!("{}:{}", self.prefix, self.local)
        }
    }
}

pub fn is_xml_char(c: char) -> bool {
    matches!(c, '\u{9}' | '\u{A}' | '\u{D}' | '\u{20}'..='\u{D7FF}' | '\u{E000}'..='\u{FFFD}' | '\u{10000}'..='\u{10FFFF}')
}

fn is_name_start(c: char) -> bool {
    c.is_ascii_alphabetic()
        || c == '_'
        || c == ':'
        || matches!(c, '\u{C0}'..='\u{D6}' | '\u{D8}'..='\u{F6}' | '\u{F8}'..='\u{2FF}' | '\u{370}'..='\u{37D}' | '\u{37F}'..='\u{1FFF}'
            | '\u{200C}'..='\u{200D}' | '\u{2070}'..='\u{218F}' | '\u{2C00}'..='\u{2FEF}' | '\u{3001}'..='\u{D7FF}'
            | '\u{F900}'..='\u{FDCF}' | '\u{FDF0}'..='\u{FFFD}' | '\u{10000}'..='\u{EFFFF}')
}

fn is_name_char(c: char) -> bool {
    is_name_start(c) || c.is_ascii_digit() || c == '-' || c == '.' || c == '\u{B7}' || matches!(c, '\u{300}'..='\u{36F}' | '\u{203F}'..='\u{2040}')
}

pub fn is_ncname(s: &str) -> bool {
    let mut it = s.chars();
    match it.next() {
        Some(c) if is_name_start(c) && c != ':' => {}
        _ => return false,
    }
    it.all(|c| is_name_char(c) && c != ':')
}

struct P<'a> {
    s: &'a str,
    pos: usize,
}

type R<T> = Result<T, String>;

impl<'a> P<'a> {
    fn rest(&self) -> &'a str {
        &self.s[self.pos..]
    }
    fn peek(&self) -> Option<char> {
        self.rest().chars().next()
    }
    fn starts(&self, p: &str) -> bool {
        self.rest().starts_with(p)
    }
    fn eat(&mut self, p: &str) -> bool {
        if self.starts(p) {
            self.pos += p.len();
            true
        } else {
            false
        }
    }
    fn expect(&mut self, p: &str) -> R<()> {
        if self.eat(p) {
            Ok(())
        } else {
            Err(format!("expected '{p}' at byte {}", self.pos))
        }
    }
    fn bump(&mut self) -> Option<char> {
        let c = self.peek()?;
        self.pos += c.len_utf8();
        Some(c)
    }
    fn ws(&mut self) -> bool {
        let start = self.pos;
        while let Some(c) = self.peek() {
            if c == ' ' || c == '\t' || c == '\n' || c == '\r' {
                self.pos += 1;
            } else {
                break;
            }
        }
        self.pos > start
    }
    fn name(&mut self) -> R<String> {
        let start = self.pos;
        match self.peek() {
            Some(c) if is_name_start(c) => {
                self.bump();
            }
            _ => return Err(format!("expected a name at byte {}", self.pos)),
        }
        while let Some(c) = self.peek() {
            if is_name_char(c) {
                self.bump();
            } else {
                break;
            }
        }
        Ok(self.s[start..self.pos].to_string())
    }
    fn until(&mut self, end: &str, what: &str) -> R<&'a str> {
        match self.rest().find(end) {
            Some(i) => {
                let t = &self.s[self.pos..self.pos + i];
                self.pos += i + end.len();
                Ok(t)
            }
            None => Err(format!("unterminated {what} starting at byte {}", self.pos)),
        }
    }
    fn reference(&mut self) -> R<char> {
        // after '&'
        if self.eat("#x") {
            let t = self.until(";", "character reference")?;
            let v = u32::from_str_radix(t, 16).map_err(|_| format!("bad character reference &#x{t};"))?;
            let c = char::from_u32(v).ok_or_else(|| format!("character reference &#x{t}; is not a character"))?;
            if !is_xml_char(c) || t.is_empty() {
                return Err(format!("character reference &#x{t}; is not an XML character"));
            }
            Ok(c)
        } else if self.eat("#") {
            let t = self.until(";", "character reference")?;
            if t.is_empty() || !t.bytes().all(|b| b.is_ascii_digit()) {
                return Err(format!("bad character reference &#{t};"));
            }
            let v: u32 = t.parse().map_err(|_| format!("bad character reference &#{t};"))?;
            let c = char::from_u32(v).ok_or_else(|| format!("character reference &#{t}; is not a character"))?;
            if !is_xml_char(c) {
                return Err(format!("character reference &#{t}; is not an XML character"));
            }
            Ok(c)
        } else {
            let t = self.until(";", "entity reference")?;
            match t {
                "lt" => Ok('<'),
                "gt" => Ok('>'),
                "amp" => Ok('&'),
                "quot" => Ok('"'),
                "apos" => Ok('\''),
                _ => Err(format!("reference to undeclared entity &{t};")),
            }
        }
    }
    fn check_chars(&self, t: &str, what: &str) -> R<()> {
        for c in t.chars() {
            if !is_xml_char(c) {
                return Err(format!("character U+{:04X} is not allowed in {what}", c as u32));
            }
        }
        Ok(())
    }
    fn misc(&mut self) -> R<()> {
        loop {
            self.ws();
            if self.starts("<!--") {
                self.comment()?;
            } else if self.starts("<?") {
                self.pi()?;
            } else {
                return Ok(());
            }
        }
    }
    fn comment(&mut self) -> R<()> {
        self.expect("<!--")?;
        let t = self.until("-->", "comment")?;
        if t.contains("--") || t.ends_with('-') {
            return Err("'--' is not allowed inside a comment".into());
        }
        self.check_chars(t, "a comment")
    }
    fn pi(&mut self) -> R<()> {
        self.expect("<?")?;
        let target = self.name()?;
        if target.eq_ignore_ascii_case("xml") {
            return Err("processing instruction target 'xml' is reserved".into());
        }
        let t = self.until("?>", "processing instruction")?;
        self.check_chars(t, "a processing instruction")
    }
    fn attr_value(&mut self) -> R<String> {
        let q = match self.bump() {
            Some(c) if c == '"' || c == '\'' => c,
            _ => return Err(format!("expected a quoted attribute value at byte {}", self.pos)),
        };
        let mut v = String::new();
        loop {
            match self.bump() {
                None => return Err("unterminated attribute value".into()),
                Some(c) if c == q => break,
                Some('<') => return Err("'<' is not allowed in an attribute value".into()),
                Some('&') => v.push(self.reference()?),
                Some(c) => {
                    if !is_xml_char(c) {
                        return Err(format!("character U+{:04X} is not allowed in an attribute value", c as u32));
                    }
                    // attribute value normalisation
                    if c == '\t' || c == '\n' || c == '\r' {
                        v.push(' ')
                    } else {
                        v.push(c)
                    }
                }
            }
        }
        Ok(v)
    }
    fn element(&mut self, scope: &[(String, String)], depth: usize) -> R<Elem> {
        if depth > 200 {
            return Err("element nesting deeper than 200".into());
        }
        self.expect("<")?;
        let qname = self.name()?;
        let mut raw_attrs: Vec<(String, String)> = Vec::new();
        let mut empty = false;
        loop {
            let had_ws = self.ws();
            if self.eat("/>") {
                empty = true;
                break;
            }
            if self.eat(">") {
                break;
            }
            if !had_ws {
                return Err(format!("expected whitespace before an attribute at byte {}", self.pos));
            }
            let an = self.name()?;
            self.ws();
            self.expect("=")?;
            self.ws();
            let av = self.attr_value()?;
            if raw_attrs.iter().any(|(n, _)| *n == an) {
                return Err(format!("duplicate attribute '{an}'"));
            }
            raw_attrs.push((an, av));
        }
        // namespaces
        let mut my_scope: Vec<(String, String)> = scope.to_vec();
        let mut ns_decls = Vec::new();
        let mut attrs = Vec::new();
        for (n, v) in &raw_attrs {
            if n == "xmlns" {
                ns_decls.push((String::new(), v.clone()));
                my_scope.push((String::new(), v.clone()));
            } else if let Some(p) = n.strip_prefix("xmlns:") {
                if !is_ncname(p) {
                    return Err(format!("namespace prefix '{p}' is not an NCName"));
                }
                if v.is_empty() {
                    return Err(format!("namespace prefix '{p}' is bound to an empty URI"));
                }
                if p == "xmlns" || (p == "xml" && v != "http://www.w3.org/XML/1998/namespace") {
                    return Err(format!("namespace prefix '{p}' must not be declared"));
                }
                ns_decls.push((p.to_string(), v.clone()));
                my_scope.push((p.to_string(), v.clone()));
            }
        }
        let lookup = |prefix: &str, scope: &[(String, String)]| -> Option<String> {
            if prefix == "xml" {
                return Some("http://www.w3.org/XML/1998/namespace".into());
            }
            scope.iter().rev().find(|(p, _)| p == prefix).map(|(_, u)| u.clone())
        };
        let split = |q: &str| -> R<(String, String)> {
            let parts: Vec<&str> = q.split(':').collect();
            match parts.len() {
                1 => {
                    if !is_ncname(parts[0]) {
                        return Err(format!("'{q}' is not a valid name"));
                    }
                    Ok((String::new(), parts[0].to_string()))
                }
                2 => {
                    if !is_ncname(parts[0]) || !is_ncname(parts[1]) {
                        return Err(format!("'{q}' is not a valid qualified name"));
                    }
                    Ok((parts[0].to_string(), parts[1].to_string()))
                }
                _ => Err(format!("'{q}' is not a valid qualified name")),
            }
        };
        let (prefix, local) = split(&qname)?;
        let ns = if prefix.is_empty() {
            lookup("", &my_scope).unwrap_or_default()
        } else {
            lookup(&prefix, &my_scope).ok_or_else(|| format!("element prefix '{prefix}' is not declared"))?
        };
        let mut expanded: Vec<(String, String)> = Vec::new();
        for (n, v) in &raw_attrs {
            if n == "xmlns" || n.starts_with("xmlns:") {
                continue;
            }
            let (ap, al) = split(n)?;
            let ans = if ap.is_empty() {
                String::new()
            } else {
                lookup(&ap, &my_scope).ok_or_else(|| format!("attribute prefix '{ap}' is not declared"))?
            };
            if expanded.iter().any(|(u, l)| *u == ans && *l == al && !ans.is_empty()) {
                return Err(format!("duplicate attribute '{al}' after namespace expansion"));
            }
            expanded.push((ans, al.clone()));
            attrs.push(Attr { prefix: ap, local: al, value: v.clone() });
        }
        let mut e = Elem { prefix, local, ns, attrs, ns_decls, children: Vec::new() };
        if empty {
            return Ok(e);
        }
        // content
        let mut text = String::new();
        loop {
            if self.starts("</") {
                break;
            }
            if self.starts("<![CDATA[") {
                self.pos += 9;
                let t = self.until("]]>", "CDATA section")?;
                self.check_chars(t, "a CDATA section")?;
                text.push_str(t);
            } else if self.starts("<!--") {
                self.comment()?;
            } else if self.starts("<?") {
                self.pi()?;
            } else if self.starts("<!") {
                return Err(format!("unexpected markup declaration at byte {}", self.pos));
            } else if self.starts("<") {
                if !text.is_empty() {
                    e.children.push(Node::Text(std::mem::take(&mut text)));
                }
                let child = self.element(&my_scope, depth + 1)?;
                e.children.push(Node::Elem(child));
            } else {
                match self.bump() {
                    None => return Err(format!("unexpected end of document inside <{qname}>")),
                    Some('&') => text.push(self.reference()?),
                    Some(c) => {
                        if !is_xml_char(c) {
                            return Err(format!("character U+{:04X} is not allowed in character data", c as u32));
                        }
                        if c == '>' && text.ends_with("]]") && self.s[..self.pos].ends_with("]]>") {
                            return Err("']]>' is not allowed in character data".into());
                        }
                        text.push(c);
                    }
                }
            }
        }
        if !text.is_empty() {
            e.children.push(Node::Text(text));
        }
        self.expect("</")?;
        let end = self.name()?;
        if end != qname {
            return Err(format!("end tag </{end}> does not match <{qname}>"));
        }
        self.ws();
        self.expect(">")?;
        Ok(e)
    }
}

/// Normalise line ends as an XML processor does before parsing.
fn normalise_eol(s: &str) -> String {
    if !s.contains('\r') {
        return s.to_string();
    }
    s.replace("\r\n", "\n").replace('\r', "\n")
}

/// Parse a document. Returns the root element or a well-formedness error.
pub fn parse(input: &str) -> Result<Elem, String> {
    let text = normalise_eol(input);
    let mut p = P { s: &text, pos: 0 };
    if p.starts("\u{FEFF}") {
        p.pos += 3;
    }
    if p.starts("<?xml") && p.rest()[5..].starts_with(|c: char| c.is_whitespace()) {
        p.pos += 5;
        let decl = p.until("?>", "XML declaration")?;
        let d = decl.trim();
        if !d.starts_with("version") {
            return Err("XML declaration without version".into());
        }
        if !(d.contains("\"1.0\"") || d.contains("'1.0'") || d.contains("\"1.1\"") || d.contains("'1.1'")) {
            return Err("unsupported XML version".into());
        }
        if let Some(i) = d.find("encoding") {
            let enc = d[i..].to_ascii_lowercase();
            if !(enc.contains("utf-8") || enc.contains("utf8")) {
                return Err("only UTF-8 encoded XML is supported".into());
            }
        }
    }
    p.misc()?;
    if p.starts("<!DOCTYPE") {
        return Err("document type declarations are not supported".into());
    }
    if !p.starts("<") {
        return Err(format!("expected the root element at byte {}", p.pos));
    }
    let root = p.element(&[], 0)?;
    p.misc()?;
    if p.pos != text.len() {
        return Err(format!("content after the root element at byte {}", p.pos));
    }
    Ok(root)
}

pub fn self_check() -> Result<(), String> {
    let ok = [
        "<a/>",
        "<?xml version=\"1.0\" encoding=\"UTF-8\"?>\n<a xmlns=\"u\" xmlns:p=\"v\"><p:b x='1' p:y=\"2\">t&amp;<![CDATA[<x>]]]]><![CDATA[>]]></p:b><!-- c --><?pi d?></a>\n",
        "<a>&#65;&#x42;</a>",
    ];
    for d in ok {
        parse(d).map_err(|e| format!("xml self check: '{d}' rejected: {e}"))?;
    }
    let r = parse(ok[1])?;
    let b = r.child("v", "b").ok_or("xml self check: child lookup failed")?;
    if b.text() != "t&<x>]]>" || b.attr("x") != Some("1") {
        return Err(format!("xml self check: text/attr extraction wrong: {:?}", b.text()));
    }
    let bad = [
        "<a>",
        "<a></b>",
        "<a x=1/>",
        "<a x='1' x='2'/>",
        "<p:a/>",
        "<a xmlns:0p='u'/>",
        "<a>]]></a>",
        "<a>&nbsp;</a>",
        "<a/><b/>",
        "<a>\u{1}</a>",
        "<a><!-- -- --></a>",
        "<0a/>",
        "<a x='<'/>",
    ];
    for d in bad {
        if parse(d).is_ok() {
            return Err(format!("xml self check: ill-formed '{d}' accepted"));
        }
    }
    Ok(())
}

fn esc_text(t: &str, out: &mut String) {
    for c in t.chars() {
        match c {
            '&' => out.push_str("&amp;"),
            '<' => out.push_str("&lt;"),
            '>' => out.push_str("&gt;"),
            '\r' => out.push_str("&#13;"),
            c => out.push(c),
        }
    }
}

fn esc_attr(t: &str, out: &mut String) {
    for c in t.chars() {
        match c {
            '&' => out.push_str("&amp;"),
            '<' => out.push_str("&lt;"),
            '"' => out.push_str("&quot;"),
            '\n' => out.push_str("&#10;"),
            '\t' => out.push_str("&#9;"),
            '\r' => out.push_str("&#13;"),
            c => out.push(c),
        }
    }
}

fn write_elem(e: &Elem, out: &mut String) {
    out.push('<');
    out.push_str(&e.qname());
    for (p, u) in &e.ns_decls {
        if p.is_empty() {
            out.push_str(" xmlns=\"");
        } else {
            out.push_str(&format!(" xmlns:{p}=\""));
        }
        esc_attr(u, out);
        out.push('"');
    }
    for a in &e.attrs {
        out.push(' ');
        if !a.prefix.is_empty() {
            out.push_str(&a.prefix);
            out.push(':');
        }
        out.push_str(&a.local);
        out.push_str("=\"");
        esc_attr(&a.value, out);
        out.push('"');
    }
    if e.children.is_empty() {
        out.push_str("/>");
        return;
    }
    out.push('>');
    for c in &e.children {
        match c {
            Node::Elem(x) => write_elem(x, out),
            Node::Text(t) => esc_text(t, out),
        }
    }
    out.push_str("</");
    out.push_str(&e.qname());
    out.push('>');
}

/// Serialise a tree (used to produce mutated documents from a parsed one).
pub fn serialize(root: &Elem) -> String {
    let mut out = String::from("<?xml version=\"1.0\" encoding=\"UTF-8\"?>\n");
    write_elem(root, &mut out);
    out.push('\n');
    out
}
