//! Content digests of the bundled foreign files as decoded by refcodec, recorded when refcodec
//! and the crate's reader (at the repaired tree) agreed on every file (`e57sim golden` prints this table).
pub const GOLDEN: [(&str, u64); 19] = [
    ("bunnyDouble.e57", 0x6dabe088b34eade5),
    ("bunnyFloat.e57", 0xbe909fe5b42a2a41),
    ("bunnyInt19.e57", 0x8a626391d30ffd2f),
    ("bunnyInt21.e57", 0xfcd8d793363d5cff),
    ("bunnyInt24.e57", 0x3e90229687215acb),
    ("bunnyInt32.e57", 0xb165765de178836d),
    ("empty.e57", 0x2e2fb5650bd3926f),
    ("empty_pc.e57", 0x45dcf4cc7012f6fd),
    ("float_intensity_without_min_max.e57", 0x7b997d2ebd49ff90),
    ("integer_intensity.e57", 0x6def25afc8ca26cb),
    ("las2e57_no_images_tag.e57", 0x2933f02b239a08c0),
    ("no_ext_namespace.e57", 0x054d0023238eee99),
    ("original_guids.e57", 0x33be12e0eadf8a51),
    ("read_error.e57", 0x6e89e7c76792d4d6),
    ("scaled_integer_intensity.e57", 0x5aabb9ed633b6b01),
    ("tinyCartesianFloatRgb.e57", 0xb952ecef920aa864),
    ("tiny_pc_and_images.e57", 0x79493930aaf2f0eb),
    ("tiny_pc_with_extension.e57", 0xbac439051f525945),
    ("tiny_spherical.e57", 0x8cd8639d7c76f88b),
];
