//! Independent codec for the E57 format, written from the format description in DESIGN.md
//! appendix A. Shares no code with /repo. Used as judge (fsck/decoder), as foreign producer
//! (encoder) and as field locator for structure-aware corruption.
pub mod decode;
pub mod encode;
pub mod golden;
pub mod page;
pub mod xml;

/// Cheap completeness test used until the full fsck has judged an image: whole pages, valid
/// checksums, file header with the right magic whose length field equals the image size.
pub fn quick_complete(image: &[u8]) -> bool {
    if image.len() < 1024 || image.len() % 1024 != 0 {
        return false;
    }
    if &image[0..8] != b"ASTM-E57" {
        return false;
    }
    let len = u64::from_le_bytes(image[16..24].try_into().unwrap_or([0; 8]));
    len == image.len() as u64 && page::bad_pages(image).is_empty()
}

use crate::adapter;
use crate::model::*;
use crate::simdisk::{new_ctx, Chunk, SimDisk, DEV_DISK3};

/// Compare what refcodec decodes with what the crate's reader reports (calibration and C02/C03).
pub fn diff_file(got: &FileRead, want: &FileRead, compare_bounds: bool) -> Option<String> {
    if got.guid != want.guid {
        return Some(format!("file guid {:?} vs {:?}", got.guid, want.guid));
    }
    if got.coord_meta != want.coord_meta {
        return Some(format!("coordinateMetadata {:?} vs {:?}", got.coord_meta, want.coord_meta));
    }
    if got.creation != want.creation {
        return Some(format!("creationDateTime {:?} vs {:?}", got.creation, want.creation));
    }
    {
        // declaration order of namespace prefixes on the root element carries no meaning
        let (mut a, mut b) = (got.extensions.clone(), want.extensions.clone());
        a.sort();
        b.sort();
        if a != b {
            return Some(format!("extensions {:?} vs {:?}", got.extensions, want.extensions));
        }
    }
    if got.pcs.len() != want.pcs.len() {
        return Some(format!("{} vs {} point clouds", got.pcs.len(), want.pcs.len()));
    }
    for (i, (g, w)) in got.pcs.iter().zip(want.pcs.iter()).enumerate() {
        if g.guid != w.guid {
            return Some(format!("pc {i}: guid {:?} vs {:?}", g.guid, w.guid));
        }
        if g.proto != w.proto {
            return Some(format!("pc {i}: prototype {:?} vs {:?}", g.proto, w.proto));
        }
        if g.records != w.records {
            return Some(format!("pc {i}: records {} vs {}", g.records, w.records));
        }
        if let Some(d) = diff_pc_meta(&g.meta, &w.meta) {
            return Some(format!("pc {i}: {d}"));
        }
        if compare_bounds && g.bounds != w.bounds {
            return Some(format!("pc {i}: bounds {:?} vs {:?}", g.bounds, w.bounds));
        }
        match (&g.points, &w.points) {
            (Ok(a), Ok(b)) => {
                if let Some(d) = diff_points(a, b) {
                    return Some(format!("pc {i}: {d}"));
                }
            }
            (a, b) => {
                if a.is_ok() != b.is_ok() {
                    return Some(format!("pc {i}: points {:?} vs {:?}", a.as_ref().map(|p| p.len()), b.as_ref().map(|p| p.len())));
                }
            }
        }
    }
    if got.images.len() != want.images.len() {
        return Some(format!("{} vs {} images", got.images.len(), want.images.len()));
    }
    for (i, (g, w)) in got.images.iter().zip(want.images.iter()).enumerate() {
        if g.guid != w.guid {
            return Some(format!("image {i}: guid {:?} vs {:?}", g.guid, w.guid));
        }
        if let Some(d) = diff_img_meta(&g.meta, &w.meta) {
            return Some(format!("image {i}: {d}"));
        }
        if g.visual != w.visual {
            return Some(format!("image {i}: visual reference differs: {:?} vs {:?}", g.visual.as_ref().map(|r| (&r.props, r.data_len, r.mask_len)), w.visual.as_ref().map(|r| (&r.props, r.data_len, r.mask_len))));
        }
        if g.projection != w.projection {
            return Some(format!("image {i}: projection differs: {:?} vs {:?}", g.projection.as_ref().map(|r| (r.kind, &r.props, r.data_len, r.mask_len)), w.projection.as_ref().map(|r| (r.kind, &r.props, r.data_len, r.mask_len))));
        }
    }
    None
}

/// Digest of everything refcodec decodes from a file (XML text excluded).
pub fn content_digest(f: &FileRead) -> u64 {
    let mut g = f.clone();
    g.xml.clear();
    let mut d = crate::rng::Digest::new();
    d.str(&format!("{g:?}"));
    d.finish()
}

pub fn bundled_names() -> Vec<String> {
    let mut names: Vec<String> = std::fs::read_dir("/repo/testdata")
        .map(|d| d.flatten().filter_map(|e| e.file_name().into_string().ok()).filter(|n| n.ends_with(".e57") && n != "corrupt_crc.e57").collect())
        .unwrap_or_default();
    names.sort();
    names
}

/// Known deviation of the crate, not judged: a date-time structure without isAtomicClockReferenced
/// (optional in the standard, default 0) or with an empty dateTimeValue is dropped entirely.
pub fn normalise_datetimes(dec: &mut FileRead, theirs: &FileRead) {
    if theirs.creation.is_none() && dec.creation.as_ref().map(|d| !d.atomic).unwrap_or(false) {
        dec.creation = None;
    }
    for (g, w) in dec.pcs.iter_mut().zip(theirs.pcs.iter()) {
        if w.meta.acq_start.is_none() && g.meta.acq_start.as_ref().map(|d| !d.atomic).unwrap_or(false) {
            g.meta.acq_start = None;
        }
        if w.meta.acq_end.is_none() && g.meta.acq_end.as_ref().map(|d| !d.atomic).unwrap_or(false) {
            g.meta.acq_end = None;
        }
    }
    for (g, w) in dec.images.iter_mut().zip(theirs.images.iter()) {
        if w.meta.acquisition.is_none() && g.meta.acquisition.as_ref().map(|d| !d.atomic).unwrap_or(false) {
            g.meta.acquisition = None;
        }
    }
}

/// What the crate's reader reports about a bundled file vs what refcodec decodes (C03 / golden).
pub fn compare_bundled_with_crate(name: &str) -> Result<(), String> {
    let image = std::fs::read(format!("/repo/testdata/{name}")).map_err(|e| format!("{name}: {e}"))?;
    let (dec, _) = decode::analyse(&image);
    let mut dec = dec.ok_or_else(|| format!("{name}: refcodec cannot decode"))?;
    let ctx = new_ctx(vec![]);
    let disk = SimDisk::new(&ctx, DEV_DISK3, image, &Chunk::Full);
    let mut r = e57::E57Reader::new(disk).map_err(|e| format!("the crate cannot open {name}: {e}"))?;
    let theirs = adapter::read_all(&mut r);
    normalise_datetimes(&mut dec.file, &theirs);
    match diff_file(&theirs, &dec.file, true) {
        Some(d) => Err(format!("{name}: crate vs independent decoder: {d}")),
        None => Ok(()),
    }
}

/// Calibration against a third implementation: every bundled foreign file with valid checksums
/// must pass every fsck rule, and must decode to the content recorded in `golden` (recorded when
/// refcodec and the crate's reader agreed on every file). Independent of the crate under test:
/// a crate that misreads a bundled file is a C03 violation, not a calibration failure.
pub fn calibrate(verbose: bool) -> Result<usize, String> {
    page::self_check()?;
    xml::self_check()?;
    let names = bundled_names();
    let mut n = 0;
    for name in &names {
        let image = std::fs::read(format!("/repo/testdata/{name}")).map_err(|e| format!("{name}: {e}"))?;
        let (dec, problems) = decode::analyse(&image);
        if verbose {
            println!("{name}: {} bytes, {} problems", image.len(), problems.len());
            for p in &problems {
                println!("   {p}");
            }
        }
        let dec = dec.ok_or_else(|| format!("calibration: {name} not decodable: {problems:?}"))?;
        if !problems.is_empty() {
            return Err(format!("calibration: fsck rule broken by bundled file {name}: {}", problems[0]));
        }
        let d = content_digest(&dec.file);
        if verbose {
            println!("   (\"{name}\", 0x{d:016x}),");
        }
        match golden::GOLDEN.iter().find(|(g, _)| g == name) {
            Some((_, want)) if *want == d => {}
            Some((_, want)) => return Err(format!("calibration: refcodec decodes {name} to digest {d:016x}, golden is {want:016x}")),
            None => return Err(format!("calibration: no golden digest for bundled file {name}")),
        }
        n += 1;
    }
    if n != golden::GOLDEN.len() {
        return Err(format!("calibration: {n} bundled files found, {} golden digests", golden::GOLDEN.len()));
    }
    Ok(n)
}

/// Print the golden table (used once, after checking every file against the crate's reader).
pub fn print_golden() -> Result<(), String> {
    let names = bundled_names();
    println!("pub const GOLDEN: [(&str, u64); {}] = [", names.len());
    for name in &names {
        compare_bundled_with_crate(name)?;
        let image = std::fs::read(format!("/repo/testdata/{name}")).map_err(|e| e.to_string())?;
        let (dec, problems) = decode::analyse(&image);
        if !problems.is_empty() {
            return Err(format!("{name}: {problems:?}"));
        }
        let dec = dec.ok_or("undecodable")?;
        println!("    (\"{name}\", 0x{:016x}),", content_digest(&dec.file));
    }
    println!("];");
    Ok(())
}

#[allow(dead_code)]
fn calibration_tolerated(_name: &str, _diff: &str) -> bool {
    false
}
