//! Independent codec for the E57 format, written from the format description in DESIGN.md
//! appendix A. Shares no code with /repo. Used as judge (fsck/decoder), as foreign producer
//! (encoder) and as field locator for structure-aware corruption.
pub mod page;
