//! Independent codec for the E57 format, written from the format description in DESIGN.md
//! appendix A. Shares no code with /repo. Used as judge (fsck/decoder), as foreign producer
//! (encoder) and as field locator for structure-aware corruption.
pub mod page;

/// Cheap completeness test used until the full fsck has judged an image: whole pages, valid
/// checksums, file header with the right magic whose length field equals the image size.
pub fn quick_complete(image: &[u8]) -> bool {
    if image.len() < 1024 || image.len() % 1024 != 0 {
        return false;
    }
    if &image[0..8] != b"ASTM-E57" {
        return false;
    }
    let len = u64::from_le_bytes(image[16..24].try_into().unwrap_or([0; 8]));
    len == image.len() as u64 && page::bad_pages(image).is_empty()
}
