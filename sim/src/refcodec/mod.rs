//! Independent codec for the E57 format, written from the format description in DESIGN.md
//! appendix A. Shares no code with /repo. Used as judge (fsck/decoder), as foreign producer
//! (encoder) and as field locator for structure-aware corruption.
pub mod decode;
pub mod encode;
pub mod page;
pub mod xml;

/// Cheap completeness test used until the full fsck has judged an image: whole pages, valid
/// checksums, file header with the right magic whose length field equals the image size.
pub fn quick_complete(image: &[u8]) -> bool {
    if image.len() < 1024 || image.len() % 1024 != 0 {
        return false;
    }
    if &image[0..8] != b"ASTM-E57" {
        return false;
    }
    let len = u64::from_le_bytes(image[16..24].try_into().unwrap_or([0; 8]));
    len == image.len() as u64 && page::bad_pages(image).is_empty()
}

use crate::adapter;
use crate::model::*;
use crate::simdisk::{new_ctx, Chunk, SimDisk, DEV_DISK3};

/// Compare what refcodec decodes with what the crate's reader reports (calibration and C02/C03).
pub fn diff_file(got: &FileRead, want: &FileRead, compare_bounds: bool) -> Option<String> {
    if got.guid != want.guid {
        return Some(format!("file guid {:?} vs {:?}", got.guid, want.guid));
    }
    if got.coord_meta != want.coord_meta {
        return Some(format!("coordinateMetadata {:?} vs {:?}", got.coord_meta, want.coord_meta));
    }
    if got.creation != want.creation {
        return Some(format!("creationDateTime {:?} vs {:?}", got.creation, want.creation));
    }
    {
        // declaration order of namespace prefixes on the root element carries no meaning
        let (mut a, mut b) = (got.extensions.clone(), want.extensions.clone());
        a.sort();
        b.sort();
        if a != b {
            return Some(format!("extensions {:?} vs {:?}", got.extensions, want.extensions));
        }
    }
    if got.pcs.len() != want.pcs.len() {
        return Some(format!("{} vs {} point clouds", got.pcs.len(), want.pcs.len()));
    }
    for (i, (g, w)) in got.pcs.iter().zip(want.pcs.iter()).enumerate() {
        if g.guid != w.guid {
            return Some(format!("pc {i}: guid {:?} vs {:?}", g.guid, w.guid));
        }
        if g.proto != w.proto {
            return Some(format!("pc {i}: prototype {:?} vs {:?}", g.proto, w.proto));
        }
        if g.records != w.records {
            return Some(format!("pc {i}: records {} vs {}", g.records, w.records));
        }
        if let Some(d) = diff_pc_meta(&g.meta, &w.meta) {
            return Some(format!("pc {i}: {d}"));
        }
        if compare_bounds && g.bounds != w.bounds {
            return Some(format!("pc {i}: bounds {:?} vs {:?}", g.bounds, w.bounds));
        }
        match (&g.points, &w.points) {
            (Ok(a), Ok(b)) => {
                if let Some(d) = diff_points(a, b) {
                    return Some(format!("pc {i}: {d}"));
                }
            }
            (a, b) => {
                if a.is_ok() != b.is_ok() {
                    return Some(format!("pc {i}: points {:?} vs {:?}", a.as_ref().map(|p| p.len()), b.as_ref().map(|p| p.len())));
                }
            }
        }
    }
    if got.images.len() != want.images.len() {
        return Some(format!("{} vs {} images", got.images.len(), want.images.len()));
    }
    for (i, (g, w)) in got.images.iter().zip(want.images.iter()).enumerate() {
        if g.guid != w.guid {
            return Some(format!("image {i}: guid {:?} vs {:?}", g.guid, w.guid));
        }
        if let Some(d) = diff_img_meta(&g.meta, &w.meta) {
            return Some(format!("image {i}: {d}"));
        }
        if g.visual != w.visual {
            return Some(format!("image {i}: visual reference differs: {:?} vs {:?}", g.visual.as_ref().map(|r| (&r.props, r.data_len, r.mask_len)), w.visual.as_ref().map(|r| (&r.props, r.data_len, r.mask_len))));
        }
        if g.projection != w.projection {
            return Some(format!("image {i}: projection differs: {:?} vs {:?}", g.projection.as_ref().map(|r| (r.kind, &r.props, r.data_len, r.mask_len)), w.projection.as_ref().map(|r| (r.kind, &r.props, r.data_len, r.mask_len))));
        }
    }
    None
}

/// Calibration against a third implementation: every bundled foreign file with valid checksums
/// must pass every fsck rule and decode to what the crate's reader returns.
pub fn calibrate(verbose: bool) -> Result<usize, String> {
    page::self_check()?;
    xml::self_check()?;
    let dir = std::path::Path::new("/repo/testdata");
    let mut names: Vec<String> = std::fs::read_dir(dir)
        .map_err(|e| format!("cannot list /repo/testdata: {e}"))?
        .flatten()
        .filter_map(|e| e.file_name().into_string().ok())
        .filter(|n| n.ends_with(".e57") && n != "corrupt_crc.e57")
        .collect();
    names.sort();
    let mut n = 0;
    for name in &names {
        let image = std::fs::read(dir.join(name)).map_err(|e| format!("{name}: {e}"))?;
        let (dec, problems) = decode::analyse(&image);
        if verbose {
            println!("{name}: {} bytes, {} problems", image.len(), problems.len());
            for p in &problems {
                println!("   {p}");
            }
        }
        let dec = dec.ok_or_else(|| format!("calibration: {name} not decodable: {problems:?}"))?;
        // every bundled file except corrupt_crc.e57 is a valid file
        let expect_clean = true;
        if expect_clean && !problems.is_empty() {
            return Err(format!("calibration: fsck rule broken by bundled file {name}: {}", problems[0]));
        }
        let ctx = new_ctx(vec![]);
        let disk = SimDisk::new(&ctx, DEV_DISK3, image.clone(), &Chunk::Full);
        let mut r = e57::E57Reader::new(disk).map_err(|e| format!("calibration: crate cannot open {name}: {e}"))?;
        let theirs = adapter::read_all(&mut r);
        let mut dec = dec;
        // Known deviation of the crate, not judged by calibration: a date-time structure without
        // isAtomicClockReferenced (optional in the standard, default 0) is dropped entirely.
        if theirs.creation.is_none() && dec.file.creation.as_ref().map(|d| !d.atomic).unwrap_or(false) {
            dec.file.creation = None;
        }
        for (g, w) in dec.file.pcs.iter_mut().zip(theirs.pcs.iter()) {
            if w.meta.acq_start.is_none() && g.meta.acq_start.as_ref().map(|d| !d.atomic).unwrap_or(false) {
                g.meta.acq_start = None;
            }
            if w.meta.acq_end.is_none() && g.meta.acq_end.as_ref().map(|d| !d.atomic).unwrap_or(false) {
                g.meta.acq_end = None;
            }
        }
        for (g, w) in dec.file.images.iter_mut().zip(theirs.images.iter()) {
            if w.meta.acquisition.is_none() && g.meta.acquisition.as_ref().map(|d| !d.atomic).unwrap_or(false) {
                g.meta.acquisition = None;
            }
        }
        if expect_clean {
            if let Some(d) = diff_file(&dec.file, &theirs, true) {
                if verbose {
                    println!("   DIFF {d}");
                }
                // differences that are known, documented deviations of the crate are tolerated by name
                if !calibration_tolerated(name, &d) {
                    return Err(format!("calibration: refcodec and the crate disagree on {name}: {d}"));
                }
            }
        }
        n += 1;
    }
    Ok(n)
}

fn calibration_tolerated(_name: &str, _diff: &str) -> bool {
    false
}
