//! Page layer: 1024-byte pages = 1020 payload bytes + big-endian CRC-32C of the payload.

pub const PAGE: usize = 1024;
pub const PAYLOAD: usize = 1020;

/// Bitwise CRC-32C (Castagnoli), reflected polynomial 0x82F63B78, init and xorout 0xFFFFFFFF.
pub fn crc32c(data: &[u8]) -> u32 {
    let mut crc: u32 = 0xFFFF_FFFF;
    for b in data {
        crc ^= *b as u32;
        for _ in 0..8 {
            let lsb = crc & 1;
            crc >>= 1;
            if lsb != 0 {
                crc ^= 0x82F6_3B78;
            }
        }
    }
    !crc
}

/// Table-driven variant for bulk sealing (self-checked against the bitwise one at start-up).
pub struct Crc32cTable([u32; 256]);

impl Crc32cTable {
    pub fn new() -> Self {
        let mut t = [0u32; 256];
        for i in 0..256u32 {
            let mut c = i;
            for _ in 0..8 {
                c = if c & 1 != 0 { (c >> 1) ^ 0x82F6_3B78 } else { c >> 1 };
            }
            t[i as usize] = c;
        }
        Crc32cTable(t)
    }
    pub fn calc(&self, data: &[u8]) -> u32 {
        let mut crc = 0xFFFF_FFFFu32;
        for b in data {
            crc = self.0[((crc ^ *b as u32) & 0xFF) as usize] ^ (crc >> 8);
        }
        !crc
    }
}

impl Default for Crc32cTable {
    fn default() -> Self {
        Self::new()
    }
}

pub fn to_phys(logical: u64) -> u64 {
    logical + 4 * (logical / PAYLOAD as u64)
}

/// Logical offset of a physical offset; None if it points into checksum bytes.
pub fn to_logical(phys: u64) -> Option<u64> {
    if phys % PAGE as u64 >= PAYLOAD as u64 {
        None
    } else {
        Some(phys - 4 * (phys / PAGE as u64))
    }
}

/// Indices of pages whose stored checksum does not match their payload.
pub fn bad_pages(image: &[u8]) -> Vec<usize> {
    let t = Crc32cTable::new();
    let mut bad = Vec::new();
    for (i, page) in image.chunks(PAGE).enumerate() {
        if page.len() != PAGE || t.calc(&page[..PAYLOAD]).to_be_bytes() != page[PAYLOAD..] {
            bad.push(i);
        }
    }
    bad
}

/// Strip checksums: physical image -> logical stream. Err if size is not whole pages or a CRC fails.
pub fn unpage(image: &[u8]) -> Result<Vec<u8>, String> {
    if image.is_empty() || image.len() % PAGE != 0 {
        return Err(format!("file size {} is not a positive whole number of {PAGE}-byte pages", image.len()));
    }
    let t = Crc32cTable::new();
    let mut out = Vec::with_capacity(image.len() / PAGE * PAYLOAD);
    for (i, page) in image.chunks(PAGE).enumerate() {
        let crc = t.calc(&page[..PAYLOAD]).to_be_bytes();
        if crc != page[PAYLOAD..] {
            return Err(format!("page {i}: stored checksum {:02x?} != CRC-32C {:02x?}", &page[PAYLOAD..], crc));
        }
        out.extend_from_slice(&page[..PAYLOAD]);
    }
    Ok(out)
}

/// Logical stream -> physical image (zero-filled to a whole page, checksums added).
pub fn page_up(logical: &[u8]) -> Vec<u8> {
    let t = Crc32cTable::new();
    let mut out = Vec::with_capacity(logical.len().div_ceil(PAYLOAD) * PAGE);
    for chunk in logical.chunks(PAYLOAD) {
        let mut page = [0u8; PAGE];
        page[..chunk.len()].copy_from_slice(chunk);
        let crc = t.calc(&page[..PAYLOAD]);
        page[PAYLOAD..].copy_from_slice(&crc.to_be_bytes());
        out.extend_from_slice(&page);
    }
    out
}

/// Recompute the checksum of every page in place ("seal").
pub fn reseal(image: &mut [u8]) {
    let t = Crc32cTable::new();
    for page in image.chunks_mut(PAGE) {
        if page.len() == PAGE {
            let crc = t.calc(&page[..PAYLOAD]);
            page[PAYLOAD..].copy_from_slice(&crc.to_be_bytes());
        }
    }
}

pub fn self_check() -> Result<(), String> {
    // CRC-32C check value of "123456789" is 0xE3069283
    if crc32c(b"123456789") != 0xE306_9283 {
        return Err("bitwise CRC-32C fails the standard check value".into());
    }
    let t = Crc32cTable::new();
    let mut x = 7u64;
    for len in [0usize, 1, 2, 3, 9, 64, 1020] {
        let data: Vec<u8> = (0..len)
            .map(|_| {
                x = x.wrapping_mul(6364136223846793005).wrapping_add(1442695040888963407);
                (x >> 33) as u8
            })
            .collect();
        if t.calc(&data) != crc32c(&data) {
            return Err("table CRC-32C disagrees with bitwise CRC-32C".into());
        }
    }
    Ok(())
}

/// Choose the four bytes at `payload[pos..pos + 4]` so that the CRC-32C of the whole payload is
/// `target` (CRC-32C is affine over GF(2): 32 unknown bits, Gaussian elimination). None only if
/// the 32 effect vectors are dependent, which does not happen for four adjacent bytes.
pub fn solve_crc32c(payload: &mut [u8], pos: usize, target: u32) -> Option<()> {
    for b in payload[pos..pos + 4].iter_mut() {
        *b = 0;
    }
    let base = crc32c(payload);
    let mut basis: Vec<(u32, u32)> = Vec::new(); // (effect vector, which of the 32 bits)
    for bit in 0..32usize {
        payload[pos + bit / 8] ^= 1 << (bit % 8);
        let mut v = crc32c(payload) ^ base;
        payload[pos + bit / 8] ^= 1 << (bit % 8);
        let mut m = 1u32 << bit;
        for (bv, bm) in &basis {
            let top = 31 - bv.leading_zeros();
            if v >> top & 1 == 1 {
                v ^= bv;
                m ^= bm;
            }
        }
        if v != 0 {
            basis.push((v, m));
            basis.sort_by(|a, b| b.0.cmp(&a.0));
        }
    }
    let mut want = base ^ target;
    let mut chosen = 0u32;
    for (bv, bm) in &basis {
        let top = 31 - bv.leading_zeros();
        if want >> top & 1 == 1 {
            want ^= bv;
            chosen ^= bm;
        }
    }
    if want != 0 {
        return None;
    }
    payload[pos..pos + 4].copy_from_slice(&chosen.to_le_bytes());
    debug_assert_eq!(crc32c(payload), target);
    Some(())
}
