//! Seeded randomness: one integer decides everything.
//!
//! `run_seed = splitmix64(seed ^ fnv(property) ^ index)`; independent xoshiro256** streams are
//! derived from the run seed with fixed tags so that deleting a fault while shrinking does not
//! shift the workload.

pub fn splitmix64(state: &mut u64) -> u64 {
    *state = state.wrapping_add(0x9E37_79B9_7F4A_7C15);
    let mut z = *state;
    z = (z ^ (z >> 30)).wrapping_mul(0xBF58_476D_1CE4_E5B9);
    z = (z ^ (z >> 27)).wrapping_mul(0x94D0_49BB_1331_11EB);
    z ^ (z >> 31)
}

pub fn fnv(s: &str) -> u64 {
    let mut h: u64 = 0xcbf2_9ce4_8422_2325;
    for b in s.bytes() {
        h ^= b as u64;
        h = h.wrapping_mul(0x0100_0000_01b3);
    }
    h
}

pub fn mix(a: u64, b: u64) -> u64 {
    let mut s = a ^ b.rotate_left(32) ^ 0x51_7c_c1_b7_27_22_0a_95;
    splitmix64(&mut s)
}

pub fn run_seed(seed: u64, prop: &str, index: u64) -> u64 {
    let mut s = seed ^ fnv(prop) ^ index.wrapping_mul(0xD6E8_FEB8_6659_FD93);
    splitmix64(&mut s)
}

#[derive(Clone, Debug)]
pub struct Rng {
    s: [u64; 4],
}

impl Rng {
    pub fn new(seed: u64) -> Self {
        let mut sm = seed;
        let s = [
            splitmix64(&mut sm),
            splitmix64(&mut sm),
            splitmix64(&mut sm),
            splitmix64(&mut sm),
        ];
        Rng { s }
    }

    /// Independent stream for a run: `tag` is one of "gen", "chunk", "fault", "layout", ...
    pub fn stream(run_seed: u64, tag: &str) -> Self {
        Rng::new(mix(run_seed, fnv(tag)))
    }

    pub fn next_u64(&mut self) -> u64 {
        let result = self.s[1].wrapping_mul(5).rotate_left(7).wrapping_mul(9);
        let t = self.s[1] << 17;
        self.s[2] ^= self.s[0];
        self.s[3] ^= self.s[1];
        self.s[1] ^= self.s[2];
        self.s[0] ^= self.s[3];
        self.s[2] ^= t;
        self.s[3] = self.s[3].rotate_left(45);
        result
    }

    /// Uniform in 0..n (n > 0).
    pub fn below(&mut self, n: u64) -> u64 {
        debug_assert!(n > 0);
        // Multiply-shift; bias is irrelevant here.
        ((self.next_u64() as u128 * n as u128) >> 64) as u64
    }

    pub fn usize_below(&mut self, n: usize) -> usize {
        self.below(n as u64) as usize
    }

    /// Uniform in lo..=hi
    pub fn range(&mut self, lo: u64, hi: u64) -> u64 {
        debug_assert!(lo <= hi);
        if lo == 0 && hi == u64::MAX {
            return self.next_u64();
        }
        lo + self.below(hi - lo + 1)
    }

    pub fn irange(&mut self, lo: i64, hi: i64) -> i64 {
        debug_assert!(lo <= hi);
        let span = (hi as i128 - lo as i128) as u128;
        if span >= u64::MAX as u128 {
            return self.next_u64() as i64;
        }
        (lo as i128 + self.below(span as u64 + 1) as i128) as i64
    }

    /// True with probability num/den.
    pub fn chance(&mut self, num: u64, den: u64) -> bool {
        self.below(den) < num
    }

    pub fn pick<'a, T>(&mut self, items: &'a [T]) -> &'a T {
        &items[self.usize_below(items.len())]
    }

    /// Index drawn according to integer weights.
    pub fn weighted(&mut self, weights: &[u32]) -> usize {
        let total: u64 = weights.iter().map(|w| *w as u64).sum();
        let mut x = self.below(total.max(1));
        for (i, w) in weights.iter().enumerate() {
            if x < *w as u64 {
                return i;
            }
            x -= *w as u64;
        }
        weights.len() - 1
    }

    pub fn fill(&mut self, buf: &mut [u8]) {
        for chunk in buf.chunks_mut(8) {
            let v = self.next_u64().to_le_bytes();
            chunk.copy_from_slice(&v[..chunk.len()]);
        }
    }
}

/// Order-independent-free 64-bit hasher for fingerprints and digests (FNV-1a over bytes, then mixed).
#[derive(Clone)]
pub struct Digest(pub u64);

impl Default for Digest {
    fn default() -> Self {
        Digest(0xcbf2_9ce4_8422_2325)
    }
}

impl Digest {
    pub fn new() -> Self {
        Self::default()
    }
    pub fn bytes(&mut self, b: &[u8]) -> &mut Self {
        for x in b {
            self.0 ^= *x as u64;
            self.0 = self.0.wrapping_mul(0x0100_0000_01b3);
        }
        self
    }
    pub fn u64(&mut self, v: u64) -> &mut Self {
        self.bytes(&v.to_le_bytes())
    }
    pub fn str(&mut self, s: &str) -> &mut Self {
        self.bytes(s.as_bytes()).u64(s.len() as u64)
    }
    pub fn finish(&self) -> u64 {
        let mut s = self.0;
        splitmix64(&mut s)
    }
}
