//! Batch driver: seeded runs over worker threads or child processes, shrinking, replay files,
//! known findings, evidence.

use crate::rng;
use serde::de::DeserializeOwned;
use serde::{Deserialize, Serialize};
use serde_json::{json, Value};
use std::cell::RefCell;
use std::collections::{BTreeMap, BTreeSet, HashSet};
use std::io::{BufRead, BufReader, Write};
use std::panic::{catch_unwind, AssertUnwindSafe};
use std::path::{Path, PathBuf};
use std::process::{Command, Stdio};
use std::sync::atomic::{AtomicBool, AtomicU64, Ordering};
use std::sync::Mutex;
use std::time::{Duration, Instant};

#[derive(Clone, Copy, Debug, PartialEq, Eq, Serialize, Deserialize)]
pub enum Tier {
    Quick,
    Thorough,
}

impl Tier {
    pub fn name(self) -> &'static str {
        match self {
            Tier::Quick => "quick",
            Tier::Thorough => "thorough",
        }
    }
}

#[derive(Clone, Copy, Debug, PartialEq, Eq)]
pub enum Isolation {
    Threads,
    /// runs execute in child processes so that aborts, hangs and allocation blow-ups are attributable
    Children,
}

pub struct Plan {
    pub runs: u64,
    /// wall-clock cut-off in seconds (stops at a run-index boundary); None = run all indices
    pub time_box_s: Option<u64>,
    pub isolation: Isolation,
}

pub struct RunCtx {
    pub seed: u64,
    pub index: u64,
    pub run_seed: u64,
    pub tier: Tier,
}

#[derive(Clone, Debug, Serialize, Deserialize)]
pub struct Violation {
    /// stable identifier of the oracle that failed (used to keep shrinking on the same failure)
    pub class: String,
    pub detail: String,
}

pub enum Outcome<C> {
    Held,
    /// `narrowed`: the case reduced to the single enumerated point that failed (enumerating checks)
    Violation(Violation, Option<C>),
}

impl<C> Outcome<C> {
    pub fn fail(class: impl Into<String>, detail: impl Into<String>) -> Self {
        Outcome::Violation(
            Violation {
                class: class.into(),
                detail: detail.into(),
            },
            None,
        )
    }
    pub fn fail_narrowed(class: impl Into<String>, detail: impl Into<String>, c: C) -> Self {
        Outcome::Violation(
            Violation {
                class: class.into(),
                detail: detail.into(),
            },
            Some(c),
        )
    }
}

/// What one run reports back (all measured; nothing here feeds back into a run).
#[derive(Default, Clone, Debug, Serialize, Deserialize)]
pub struct RunStats {
    pub evaluations: u64,
    pub counters: BTreeMap<String, u64>,
    pub sim_ops: u64,
    pub sim_bytes: u64,
    /// fingerprints of the distinct non-trivial cases of this run
    pub fingerprints: Vec<u64>,
    /// hash of everything observable in this run (device-op log, results, verdict)
    pub digest: u64,
    pub sample: Option<Value>,
    /// max observed / budget ratios etc. (max-merged)
    pub maxima: BTreeMap<String, u64>,
    /// named coverage sets (union-merged; evidence reports their sizes)
    pub sets: BTreeMap<String, BTreeSet<u64>>,
    /// instances of listed known findings met inside this run (id -> count)
    pub known: BTreeMap<String, u64>,
}

impl RunStats {
    pub fn count(&mut self, key: &str, n: u64) {
        if n > 0 {
            *self.counters.entry(key.to_string()).or_insert(0) += n;
        } else {
            self.counters.entry(key.to_string()).or_insert(0);
        }
    }
    pub fn probe(&mut self, key: &str, hit: bool) {
        self.count(&format!("probe.{key}"), hit as u64);
    }
    pub fn max(&mut self, key: &str, v: u64) {
        let e = self.maxima.entry(key.to_string()).or_insert(0);
        if v > *e {
            *e = v;
        }
    }
    pub fn set_add(&mut self, key: &str, v: u64) {
        self.sets.entry(key.to_string()).or_default().insert(v);
    }
    pub fn fingerprint(&mut self, fp: u64) {
        self.fingerprints.push(fp);
    }
    pub fn absorb_ctx(&mut self, ctx: &crate::simdisk::Ctx) {
        let c = ctx.borrow();
        self.sim_ops += c.op_no;
        self.sim_bytes += c.stats.bytes_read + c.stats.bytes_written;
        self.count("faults.configured", c.faults.len() as u64);
        for f in &c.fired {
            self.count(&format!("faults.fired.{}", f.name), 1);
        }
    }
}

pub struct Meta {
    pub level: &'static str,
    pub rule: String,
    pub assumptions: Vec<String>,
    pub real: Vec<String>,
    pub stub: Vec<String>,
    /// probes that must be non-zero in a thorough tier (self check)
    pub required_probes: Vec<String>,
}

pub trait Prop: Sync {
    type Case: Serialize + DeserializeOwned + Clone + Send;
    fn id(&self) -> &'static str;
    fn meta(&self) -> Meta;
    fn plan(&self, tier: Tier) -> Plan;
    /// Self checks of the machinery (calibration); Err ⇒ harness error (exit 2)
    fn preflight(&self) -> Result<(), String> {
        Ok(())
    }
    fn generate(&self, rc: &RunCtx) -> Self::Case;
    fn execute(&self, case: &Self::Case, st: &mut RunStats) -> Outcome<Self::Case>;
    fn shrink(&self, _case: &Self::Case) -> Vec<Self::Case> {
        Vec::new()
    }
    /// If this violation is an instance of a finding class, return its id (looked up in known_findings.json)
    fn known_finding(&self, _case: &Self::Case, _v: &Violation) -> Option<&'static str> {
        None
    }
    /// Cross-configuration check over the per-run digests of the finished batch (C07: second CRC
    /// back end). Ok(Some((index, class, detail))) = violation at that run index.
    fn cross_check(&self, _opts: &Options, _runs: u64, _digests: &[(u64, u64)], _counters: &mut BTreeMap<String, u64>) -> Result<Option<(u64, String, String)>, String> {
        Ok(None)
    }
    /// true if cross_check needs the per-run digests of the batch
    fn wants_digests(&self) -> bool {
        false
    }
    /// Fixed regression inputs: one per known finding / repaired defect, executed before the batch.
    fn regressions(&self) -> Vec<(String, Self::Case)> {
        Vec::new()
    }
}

/// The check's own regression inputs plus the committed replay files of repaired defects:
/// `$VERIF_DIR/regressions/<ID>-*.json` (same format as a replay file; the `case` is executed
/// before the seeded batch of every tier, a violation there is reported like any other).
pub fn all_regressions<P: Prop>(p: &P) -> Vec<(String, P::Case)> {
    let mut out = p.regressions();
    let dir = std::env::var("VERIF_DIR").map(PathBuf::from).unwrap_or_else(|_| PathBuf::from("/verif")).join("regressions");
    let mut files: Vec<PathBuf> = match std::fs::read_dir(&dir) {
        Ok(rd) => rd.filter_map(|e| e.ok().map(|e| e.path())).collect(),
        Err(_) => Vec::new(),
    };
    files.sort();
    let prefix = format!("{}-", p.id());
    for f in files {
        let name = f.file_name().and_then(|n| n.to_str()).unwrap_or("").to_string();
        if !name.starts_with(&prefix) || !name.ends_with(".json") {
            continue;
        }
        let text = match std::fs::read_to_string(&f) {
            Ok(t) => t,
            Err(e) => panic!("cannot read regression input {}: {e}", f.display()),
        };
        let v: serde_json::Value = serde_json::from_str(&text).unwrap_or_else(|e| panic!("regression input {} is not JSON: {e}", f.display()));
        let case: P::Case = serde_json::from_value(v["case"].clone()).unwrap_or_else(|e| panic!("regression input {} does not hold a case of {}: {e}", f.display(), p.id()));
        out.push((name.trim_end_matches(".json").to_string(), case));
    }
    out
}

static LISTED: std::sync::OnceLock<Vec<(String, String)>> = std::sync::OnceLock::new();

/// Is finding `id` of property `prop` listed in known_findings.json (status finding)?
/// Checks that enumerate use this to count a listed finding and keep going; an unlisted one is
/// returned as a violation like any other.
pub fn listed(prop: &str, id: &str) -> bool {
    let l = LISTED.get_or_init(|| {
        let dir = std::env::var("VERIF_DIR").map(PathBuf::from).unwrap_or_else(|_| PathBuf::from("/verif"));
        let mut out = Vec::new();
        if let Ok(text) = std::fs::read_to_string(dir.join("known_findings.json")) {
            if let Ok(v) = serde_json::from_str::<Value>(&text) {
                if let Some(arr) = v.get("findings").and_then(|f| f.as_array()) {
                    for f in arr {
                        let p = f.get("property").and_then(|p| p.as_str()).unwrap_or("").to_string();
                        let i = f.get("id").and_then(|p| p.as_str()).unwrap_or("").to_string();
                        out.push((p, i));
                    }
                }
            }
        }
        out
    });
    l.iter().any(|(p, i)| p == prop && i == id)
}

thread_local! {
    static PANIC_INFO: RefCell<Option<(String, String)>> = const { RefCell::new(None) };
    pub static QUIET_PANICS: RefCell<bool> = const { RefCell::new(false) };
}

pub fn install_panic_hook() {
    let default = std::panic::take_hook();
    std::panic::set_hook(Box::new(move |info| {
        let quiet = QUIET_PANICS.with(|q| *q.borrow());
        let loc = info
            .location()
            .map(|l| format!("{}:{}", l.file(), l.line()))
            .unwrap_or_else(|| "?".into());
        let msg = if let Some(s) = info.payload().downcast_ref::<&str>() {
            s.to_string()
        } else if let Some(s) = info.payload().downcast_ref::<String>() {
            s.clone()
        } else {
            "<non-string panic>".into()
        };
        if quiet {
            PANIC_INFO.with(|p| *p.borrow_mut() = Some((loc, msg)));
        } else {
            default(info);
        }
    }));
}

/// Run a closure, turning a panic into (location, message).
pub fn guard<T>(f: impl FnOnce() -> T) -> Result<T, (String, String)> {
    let prev = QUIET_PANICS.with(|q| std::mem::replace(&mut *q.borrow_mut(), true));
    PANIC_INFO.with(|p| *p.borrow_mut() = None);
    let r = catch_unwind(AssertUnwindSafe(f));
    QUIET_PANICS.with(|q| *q.borrow_mut() = prev);
    match r {
        Ok(v) => Ok(v),
        Err(_) => {
            let info = PANIC_INFO
                .with(|p| p.borrow_mut().take())
                .unwrap_or(("?".into(), "?".into()));
            Err(info)
        }
    }
}

fn is_harness_location(loc: &str) -> bool {
    loc.contains("verif/sim/") || loc.starts_with("src/")
}

pub enum RunResult<C> {
    Held,
    Violation(Violation, Option<C>),
    HarnessError(String),
}

/// Execute one case with panic capture. A panic inside the library is a violation of every
/// property (each of them needs the call to return); a panic in harness code is a harness error.
pub fn execute_guarded<P: Prop>(p: &P, case: &P::Case, st: &mut RunStats) -> RunResult<P::Case> {
    match guard(|| p.execute(case, st)) {
        Ok(Outcome::Held) => RunResult::Held,
        Ok(Outcome::Violation(v, n)) => RunResult::Violation(v, n),
        Err((loc, msg)) => {
            if is_harness_location(&loc) {
                RunResult::HarnessError(format!("harness panic at {loc}: {msg}"))
            } else {
                let short = loc.rsplit("/repo/").next().unwrap_or(&loc).to_string();
                RunResult::Violation(
                    Violation {
                        class: format!("panic@{short}"),
                        detail: format!("library panicked at {loc}: {msg}"),
                    },
                    None,
                )
            }
        }
    }
}

#[derive(Serialize, Deserialize)]
pub struct ReplayFile {
    pub property: String,
    pub seed: u64,
    pub index: u64,
    pub tier: String,
    pub class: String,
    pub detail: String,
    pub shrink_steps: u64,
    pub case: Value,
}

pub struct Options {
    pub tier: Tier,
    pub seed: u64,
    pub workers: usize,
    pub verif_dir: PathBuf,
    pub digests_out: Option<PathBuf>,
    pub runs_override: Option<u64>,
    pub time_override: Option<u64>,
    pub no_evidence: bool,
}

#[derive(Serialize, Deserialize)]
struct ChildLine {
    i: u64,
    stats: RunStats,
    violation: Option<Violation>,
    narrowed: Option<Value>,
    harness_error: Option<String>,
}

struct Collected {
    index: u64,
    stats: RunStats,
    violation: Option<(Violation, Option<Value>)>,
    harness_error: Option<String>,
}

/// Incremental aggregate of a batch (results are folded as they arrive: a thorough tier runs
/// millions of indices).
#[derive(Default)]
struct Agg {
    evaluations: u64,
    counters: BTreeMap<String, u64>,
    maxima: BTreeMap<String, u64>,
    sets: BTreeMap<String, BTreeSet<u64>>,
    known: BTreeMap<String, u64>,
    fps: HashSet<u64>,
    sim_ops: u64,
    sim_bytes: u64,
    /// samples of the lowest run indices
    samples: Vec<(u64, Value)>,
    digests: Vec<(u64, u64)>,
    keep_digests: bool,
    violating: Vec<Collected>,
    violating_dropped: u64,
    class_counts: BTreeMap<String, u64>,
    harness_errors: Vec<(u64, String)>,
}

impl Agg {
    fn absorb(&mut self, c: Collected) {
        if let Some(e) = &c.harness_error {
            if self.harness_errors.len() < 10 {
                self.harness_errors.push((c.index, e.clone()));
            }
        }
        self.evaluations += c.stats.evaluations.max(1);
        for (k, v) in &c.stats.counters {
            *self.counters.entry(k.clone()).or_insert(0) += v;
        }
        for (k, v) in &c.stats.maxima {
            let e = self.maxima.entry(k.clone()).or_insert(0);
            if *v > *e {
                *e = *v;
            }
        }
        self.fps.extend(c.stats.fingerprints.iter().copied());
        for (k, v) in &c.stats.known {
            *self.known.entry(k.clone()).or_insert(0) += v;
        }
        for (k, v) in &c.stats.sets {
            self.sets.entry(k.clone()).or_default().extend(v.iter().copied());
        }
        self.sim_ops += c.stats.sim_ops;
        self.sim_bytes += c.stats.sim_bytes;
        if let Some(s) = &c.stats.sample {
            if self.samples.len() < 3 || self.samples.iter().any(|(i, _)| *i > c.index) {
                self.samples.push((c.index, s.clone()));
                self.samples.sort_by_key(|(i, _)| *i);
                self.samples.truncate(3);
            }
        }
        if self.keep_digests {
            self.digests.push((c.index, c.stats.digest));
        }
        if let Some((v, _)) = &c.violation {
            *self.class_counts.entry(v.class.clone()).or_insert(0) += 1;
            if self.violating.len() < 2000 {
                self.violating.push(Collected { index: c.index, stats: RunStats::default(), violation: c.violation, harness_error: None });
            } else {
                self.violating_dropped += 1;
            }
        }
    }
    fn merge(&mut self, o: Agg) {
        self.evaluations += o.evaluations;
        for (k, v) in o.counters {
            *self.counters.entry(k).or_insert(0) += v;
        }
        for (k, v) in o.maxima {
            let e = self.maxima.entry(k).or_insert(0);
            if v > *e {
                *e = v;
            }
        }
        for (k, v) in o.sets {
            self.sets.entry(k).or_default().extend(v);
        }
        for (k, v) in o.known {
            *self.known.entry(k).or_insert(0) += v;
        }
        self.fps.extend(o.fps);
        self.sim_ops += o.sim_ops;
        self.sim_bytes += o.sim_bytes;
        self.samples.extend(o.samples);
        self.samples.sort_by_key(|(i, _)| *i);
        self.samples.truncate(3);
        self.digests.extend(o.digests);
        for (k, v) in o.class_counts {
            *self.class_counts.entry(k).or_insert(0) += v;
        }
        self.violating.extend(o.violating);
        self.violating_dropped += o.violating_dropped;
        self.harness_errors.extend(o.harness_errors);
    }
}

fn known_ids(verif_dir: &Path, prop: &str) -> Result<Vec<(String, String)>, String> {
    let path = verif_dir.join("known_findings.json");
    let text = match std::fs::read_to_string(&path) {
        Ok(t) => t,
        Err(_) => return Ok(Vec::new()),
    };
    let v: Value = serde_json::from_str(&text).map_err(|e| format!("known_findings.json: {e}"))?;
    let mut out = Vec::new();
    if let Some(arr) = v.get("findings").and_then(|f| f.as_array()) {
        for f in arr {
            if f.get("property").and_then(|p| p.as_str()) == Some(prop) {
                let id = f.get("id").and_then(|p| p.as_str()).unwrap_or("").to_string();
                let what = f.get("what").and_then(|p| p.as_str()).unwrap_or("").to_string();
                out.push((id, what));
            }
        }
    }
    Ok(out)
}

fn run_index<P: Prop>(p: &P, opts: &Options, index: u64) -> Collected {
    let rc = RunCtx {
        seed: opts.seed,
        index,
        run_seed: rng::run_seed(opts.seed, p.id(), index),
        tier: opts.tier,
    };
    let mut st = RunStats::default();
    let case = match guard(|| {
        if index >= REGRESSION_BASE {
            all_regressions(p).into_iter().nth((index - REGRESSION_BASE) as usize).map(|(_, c)| c).expect("regression index")
        } else {
            p.generate(&rc)
        }
    }) {
        Ok(c) => c,
        Err((loc, msg)) => {
            return Collected {
                index,
                stats: st,
                violation: None,
                harness_error: Some(format!("generator panic at {loc}: {msg}")),
            }
        }
    };
    match execute_guarded(p, &case, &mut st) {
        RunResult::Held => Collected {
            index,
            stats: st,
            violation: None,
            harness_error: None,
        },
        RunResult::Violation(v, narrowed) => {
            let c = narrowed.unwrap_or(case);
            let cv = serde_json::to_value(&c).unwrap_or(Value::Null);
            Collected {
                index,
                stats: st,
                violation: Some((v, Some(cv))),
                harness_error: None,
            }
        }
        RunResult::HarnessError(e) => Collected {
            index,
            stats: st,
            violation: None,
            harness_error: Some(e),
        },
    }
}

/// Child-process entry: run indices from..to, print BEGIN/END lines on stdout.
pub fn child_main<P: Prop>(p: &P, opts: &Options, from: u64, to: u64) -> i32 {
    let out = std::io::stdout();
    for i in from..to {
        {
            let mut o = out.lock();
            let _ = writeln!(o, "BEGIN {i}");
            let _ = o.flush();
        }
        let c = run_index(p, opts, i);
        let line = ChildLine {
            i,
            stats: c.stats,
            violation: c.violation.as_ref().map(|v| v.0.clone()),
            narrowed: c.violation.and_then(|v| v.1),
            harness_error: c.harness_error,
        };
        let mut o = out.lock();
        let _ = writeln!(o, "END {}", serde_json::to_string(&line).unwrap_or_default());
        let _ = o.flush();
    }
    0
}

const CHILD_RUN_TIMEOUT: Duration = Duration::from_secs(20);
const CHILD_SHARD: u64 = 250;
/// run indices from here on address the fixed regression inputs (child-process isolation)
pub const REGRESSION_BASE: u64 = 1 << 40;

fn run_children<P: Prop>(
    p: &P,
    opts: &Options,
    base: u64,
    total: u64,
    deadline: Option<Instant>,
) -> (Agg, u64) {
    let total = base + total;
    let next = AtomicU64::new(base);
    let results: Mutex<Agg> = Mutex::new(Agg { keep_digests: opts.digests_out.is_some() || p.wants_digests(), ..Default::default() });
    let exe = std::env::current_exe().expect("current exe");
    let stop = AtomicBool::new(false);
    std::thread::scope(|s| {
        for _ in 0..opts.workers {
            s.spawn(|| loop {
                if stop.load(Ordering::Relaxed) {
                    break;
                }
                if let Some(d) = deadline {
                    if Instant::now() >= d {
                        stop.store(true, Ordering::Relaxed);
                        break;
                    }
                }
                let from = next.fetch_add(CHILD_SHARD, Ordering::SeqCst);
                if from >= total {
                    break;
                }
                let to = (from + CHILD_SHARD).min(total);
                let mut cur = from;
                while cur < to {
                    // (re)start a child for cur..to
                    let mut child = match Command::new(&exe)
                        .arg("--child")
                        .arg(p.id())
                        .arg("--tier")
                        .arg(opts.tier.name())
                        .arg("--seed")
                        .arg(opts.seed.to_string())
                        .arg("--from")
                        .arg(cur.to_string())
                        .arg("--to")
                        .arg(to.to_string())
                        .stdin(Stdio::null())
                        .stdout(Stdio::piped())
                        .stderr(Stdio::null())
                        .spawn()
                    {
                        Ok(c) => c,
                        Err(e) => {
                            results.lock().unwrap().absorb(Collected {
                                index: cur,
                                stats: RunStats::default(),
                                violation: None,
                                harness_error: Some(format!("cannot spawn child: {e}")),
                            });
                            return;
                        }
                    };
                    let stdout = child.stdout.take().expect("child stdout");
                    // Reader thread forwards lines through a channel so that we can time out.
                    let (tx, rx) = std::sync::mpsc::channel::<String>();
                    let reader = std::thread::spawn(move || {
                        let br = BufReader::new(stdout);
                        for line in br.lines() {
                            match line {
                                Ok(l) => {
                                    if tx.send(l).is_err() {
                                        break;
                                    }
                                }
                                Err(_) => break,
                            }
                        }
                    });
                    let mut in_flight: Option<u64> = None;
                    let mut died = false;
                    let mut timed_out = false;
                    loop {
                        match rx.recv_timeout(CHILD_RUN_TIMEOUT) {
                            Ok(line) => {
                                if let Some(rest) = line.strip_prefix("BEGIN ") {
                                    in_flight = rest.trim().parse().ok();
                                } else if let Some(rest) = line.strip_prefix("END ") {
                                    match serde_json::from_str::<ChildLine>(rest) {
                                        Ok(cl) => {
                                            cur = cl.i + 1;
                                            in_flight = None;
                                            results.lock().unwrap().absorb(Collected {
                                                index: cl.i,
                                                stats: cl.stats,
                                                violation: cl.violation.map(|v| (v, cl.narrowed)),
                                                harness_error: cl.harness_error,
                                            });
                                        }
                                        Err(e) => {
                                            results.lock().unwrap().absorb(Collected {
                                                index: cur,
                                                stats: RunStats::default(),
                                                violation: None,
                                                harness_error: Some(format!("bad child line: {e}")),
                                            });
                                            cur += 1;
                                        }
                                    }
                                }
                            }
                            Err(std::sync::mpsc::RecvTimeoutError::Timeout) => {
                                timed_out = true;
                                let _ = child.kill();
                                break;
                            }
                            Err(std::sync::mpsc::RecvTimeoutError::Disconnected) => {
                                died = true;
                                break;
                            }
                        }
                    }
                    let status = child.wait().ok();
                    let _ = reader.join();
                    if timed_out || (died && in_flight.is_some()) {
                        let i = in_flight.unwrap_or(cur);
                        let (class, detail) = if timed_out {
                            (
                                "hang".to_string(),
                                format!("run {i} did not finish within {CHILD_RUN_TIMEOUT:?}"),
                            )
                        } else {
                            (
                                "abort".to_string(),
                                format!("child process died during run {i}: {status:?}"),
                            )
                        };
                        results.lock().unwrap().absorb(Collected {
                            index: i,
                            stats: RunStats {
                                evaluations: 1,
                                ..Default::default()
                            },
                            violation: Some((Violation { class, detail }, None)),
                            harness_error: None,
                        });
                        cur = i + 1;
                    } else if died && cur < to {
                        // child ended cleanly before finishing its shard
                        if status.map(|s| s.success()).unwrap_or(false) {
                            break;
                        }
                        results.lock().unwrap().absorb(Collected {
                            index: cur,
                            stats: RunStats::default(),
                            violation: None,
                            harness_error: Some(format!("child exited unexpectedly: {status:?}")),
                        });
                        cur += 1;
                    }
                }
            });
        }
    });
    let done = next.load(Ordering::SeqCst).min(total) - base;
    (results.into_inner().unwrap(), done)
}

fn run_threads<P: Prop>(p: &P, opts: &Options, total: u64, deadline: Option<Instant>) -> (Agg, u64) {
    let next = AtomicU64::new(0);
    let keep = opts.digests_out.is_some() || p.wants_digests();
    let results: Mutex<Agg> = Mutex::new(Agg { keep_digests: keep, ..Default::default() });
    std::thread::scope(|s| {
        for _ in 0..opts.workers {
            s.spawn(|| {
                let mut local = Agg { keep_digests: keep, ..Default::default() };
                loop {
                    if let Some(d) = deadline {
                        if Instant::now() >= d {
                            break;
                        }
                    }
                    let i = next.fetch_add(1, Ordering::SeqCst);
                    if i >= total {
                        break;
                    }
                    local.absorb(run_index(p, opts, i));
                }
                results.lock().unwrap().merge(local);
            });
        }
    });
    (results.into_inner().unwrap(), next.load(Ordering::SeqCst).min(total))
}

/// Shrink while the same violation class persists.
pub fn shrink_case<P: Prop>(p: &P, case: P::Case, class: &str, budget: u64) -> (P::Case, Violation, u64) {
    let mut best = case;
    let mut steps = 0u64;
    let mut execs = 0u64;
    let mut last_v = Violation {
        class: class.to_string(),
        detail: String::new(),
    };
    'outer: loop {
        let cands = p.shrink(&best);
        for c in cands {
            if execs >= budget {
                break 'outer;
            }
            execs += 1;
            let mut st = RunStats::default();
            if let RunResult::Violation(v, n) = execute_guarded(p, &c, &mut st) {
                if v.class == class {
                    best = n.unwrap_or(c);
                    last_v = v;
                    steps += 1;
                    continue 'outer;
                }
            }
        }
        break;
    }
    (best, last_v, steps)
}

fn write_replay(dir: &Path, rf: &ReplayFile) -> Result<PathBuf, String> {
    std::fs::create_dir_all(dir).map_err(|e| e.to_string())?;
    let path = dir.join(format!("{}-{}-{}.json", rf.property, rf.seed, rf.index));
    let text = serde_json::to_string_pretty(rf).map_err(|e| e.to_string())?;
    std::fs::write(&path, text).map_err(|e| e.to_string())?;
    Ok(path)
}

/// Execute a replay file. Exit code 1 + VIOLATION line if it reproduces, 0 if the property holds on it.
pub fn replay_main<P: Prop>(p: &P, path: &Path) -> i32 {
    let text = match std::fs::read_to_string(path) {
        Ok(t) => t,
        Err(e) => {
            eprintln!("cannot read replay file: {e}");
            return 2;
        }
    };
    let rf: ReplayFile = match serde_json::from_str(&text) {
        Ok(r) => r,
        Err(e) => {
            eprintln!("cannot parse replay file: {e}");
            return 2;
        }
    };
    let case: P::Case = match serde_json::from_value(rf.case.clone()) {
        Ok(c) => c,
        Err(e) => {
            eprintln!("cannot parse case in replay file: {e}");
            return 2;
        }
    };
    let mut st = RunStats::default();
    match execute_guarded(p, &case, &mut st) {
        RunResult::Held => {
            println!("replay: property {} held on {}", p.id(), path.display());
            0
        }
        RunResult::Violation(v, _) => {
            println!("replay: class={} detail={}", v.class, v.detail);
            println!("VIOLATION property={} replay={}", p.id(), path.display());
            if v.class == rf.class {
                1
            } else {
                println!("replay: NOTE class differs from recorded class {}", rf.class);
                1
            }
        }
        RunResult::HarnessError(e) => {
            eprintln!("harness error: {e}");
            2
        }
    }
}

fn replay_in_fresh_process(prop: &str, path: &Path, class: &str) -> Result<(), String> {
    let exe = std::env::current_exe().map_err(|e| e.to_string())?;
    let mut child = Command::new(exe)
        .arg(prop)
        .arg("--replay")
        .arg(path)
        .stdin(Stdio::null())
        .stdout(Stdio::piped())
        .stderr(Stdio::null())
        .spawn()
        .map_err(|e| format!("cannot start replay process: {e}"))?;
    let started = Instant::now();
    let status = loop {
        match child.try_wait() {
            Ok(Some(s)) => break Some(s),
            Ok(None) => {
                if started.elapsed() > CHILD_RUN_TIMEOUT + Duration::from_secs(10) {
                    let _ = child.kill();
                    let _ = child.wait();
                    break None;
                }
                std::thread::sleep(Duration::from_millis(20));
            }
            Err(e) => return Err(format!("cannot wait for replay process: {e}")),
        }
    };
    let mut text = String::new();
    if let Some(mut o) = child.stdout.take() {
        use std::io::Read;
        let _ = o.read_to_string(&mut text);
    }
    match status {
        None => {
            if class == "hang" {
                Ok(())
            } else {
                Err(format!("fresh-process replay of {} timed out", path.display()))
            }
        }
        Some(s) => {
            if text.contains(&format!("class={class}")) || (class == "abort" && !s.success() && s.code() != Some(1) && s.code() != Some(2)) {
                Ok(())
            } else {
                Err(format!(
                    "fresh-process replay of {} did not reproduce class {class}: exit {:?}, output: {}",
                    path.display(),
                    s.code(),
                    text.lines().take(3).collect::<Vec<_>>().join(" | ")
                ))
            }
        }
    }
}

pub fn batch_main<P: Prop>(p: &P, opts: &Options) -> i32 {
    let started = Instant::now();
    let id = p.id();
    println!("e57sim property={id} tier={} VERIF_SEED={} workers={}", opts.tier.name(), opts.seed, opts.workers);
    if let Err(e) = p.preflight() {
        eprintln!("HARNESS-ERROR property={id} preflight failed: {e}");
        return 2;
    }
    let known = match known_ids(&opts.verif_dir, id) {
        Ok(k) => k,
        Err(e) => {
            eprintln!("HARNESS-ERROR {e}");
            return 2;
        }
    };
    let replay_dir = opts.verif_dir.join("replays");
    let mut exit = 0;
    let mut violations_reported = 0u64;
    let mut known_hits: BTreeMap<String, u64> = BTreeMap::new();

    // 1. regression inputs for known findings and repaired defects
    let mut regression_count = 0u64;
    let regs = all_regressions(p);
    let (isolated, isolated_errors): (Vec<Collected>, Vec<(u64, String)>) = if p.plan(opts.tier).isolation == Isolation::Children && !regs.is_empty() {
        let (a, _) = run_children(p, opts, REGRESSION_BASE, regs.len() as u64, None);
        (a.violating, a.harness_errors)
    } else {
        (Vec::new(), Vec::new())
    };
    for (ri, (label, case)) in regs.into_iter().enumerate() {
        regression_count += 1;
        let mut st = RunStats::default();
        let result = if p.plan(opts.tier).isolation == Isolation::Children {
            if let Some((_, e)) = isolated_errors.iter().find(|(i, _)| *i == REGRESSION_BASE + ri as u64) {
                RunResult::HarnessError(e.clone())
            } else {
                match isolated.iter().find(|c| c.index == REGRESSION_BASE + ri as u64) {
                    Some(Collected { violation: Some((v, n)), .. }) => RunResult::Violation(v.clone(), n.as_ref().and_then(|x| serde_json::from_value(x.clone()).ok())),
                    _ => RunResult::Held,
                }
            }
        } else {
            execute_guarded(p, &case, &mut st)
        };
        match result {
            RunResult::Held => {}
            RunResult::Violation(v, n) => {
                let c = n.unwrap_or(case);
                if let Some(fid) = p.known_finding(&c, &v) {
                    if let Some((_, what)) = known.iter().find(|(k, _)| k == fid) {
                        *known_hits.entry(fid.to_string()).or_insert(0) += 1;
                        let _ = what;
                        println!("known finding {fid} reproduced by regression input '{label}': class={}", v.class);
                        continue;
                    }
                }
                let rf = ReplayFile {
                    property: id.to_string(),
                    seed: opts.seed,
                    index: 1_000_000_000 + regression_count,
                    tier: opts.tier.name().into(),
                    class: v.class.clone(),
                    detail: format!("regression input '{label}': {}", v.detail),
                    shrink_steps: 0,
                    case: serde_json::to_value(&c).unwrap_or(Value::Null),
                };
                match write_replay(&replay_dir, &rf) {
                    Ok(path) => {
                        println!("violation: regression input '{label}' class={} {}", v.class, v.detail);
                        println!("VIOLATION property={id} replay={}", path.display());
                        violations_reported += 1;
                        exit = 1;
                    }
                    Err(e) => {
                        eprintln!("HARNESS-ERROR cannot write replay: {e}");
                        return 2;
                    }
                }
            }
            RunResult::HarnessError(e) => {
                eprintln!("HARNESS-ERROR property={id} regression '{label}': {e}");
                return 2;
            }
        }
    }

    // 2. the seeded batch
    let plan = p.plan(opts.tier);
    let total = opts.runs_override.unwrap_or(plan.runs);
    let time_box = opts.time_override.or(plan.time_box_s);
    let deadline = time_box.map(|s| Instant::now() + Duration::from_secs(s));
    let (mut agg, n_done) = match plan.isolation {
        Isolation::Threads => run_threads(p, opts, total, deadline),
        Isolation::Children => run_children(p, opts, 0, total, deadline),
    };
    if let Some((i, e)) = agg.harness_errors.first() {
        eprintln!("HARNESS-ERROR property={id} run={i} {e}");
        return 2;
    }
    agg.violating.sort_by_key(|c| c.index);
    agg.digests.sort();
    let evaluations = agg.evaluations;
    let mut counters = std::mem::take(&mut agg.counters);
    let maxima = std::mem::take(&mut agg.maxima);
    let fps = std::mem::take(&mut agg.fps);
    let sets = std::mem::take(&mut agg.sets);
    let sim_ops = agg.sim_ops;
    let sim_bytes = agg.sim_bytes;
    let mut samples: Vec<Value> = agg.samples.iter().map(|(_, v)| v.clone()).collect();
    let digests = std::mem::take(&mut agg.digests);
    for (k, v) in &agg.known {
        *known_hits.entry(k.clone()).or_insert(0) += v;
    }
    let violating: Vec<&Collected> = agg.violating.iter().collect();

    if let Some(path) = &opts.digests_out {
        let mut text = String::new();
        for (i, d) in &digests {
            text.push_str(&format!("{i} {d:016x}\n"));
        }
        if let Err(e) = std::fs::write(path, text) {
            eprintln!("HARNESS-ERROR cannot write digests: {e}");
            return 2;
        }
    }

    // 3. report violations: shrink the first few distinct classes, list the rest
    let mut seen_classes: HashSet<String> = HashSet::new();
    let mut unlisted = 0u64;
    for c in &violating {
        let (v, cv) = c.violation.as_ref().unwrap();
        let case: Option<P::Case> = cv.as_ref().and_then(|x| serde_json::from_value(x.clone()).ok());
        // known finding?
        if let Some(case) = &case {
            if let Some(fid) = p.known_finding(case, v) {
                if known.iter().any(|(k, _)| k == fid) {
                    *known_hits.entry(fid.to_string()).or_insert(0) += 1;
                    continue;
                }
            }
        }
        unlisted += 1;
        exit = 1;
        if violations_reported >= 12 {
            continue;
        }
        let first_of_class = seen_classes.insert(v.class.clone());
        let (final_case, final_v, steps) = match (&case, first_of_class && seen_classes.len() <= 4) {
            (Some(case), true) if plan.isolation == Isolation::Threads || (v.class != "abort" && v.class != "hang") => {
                let (c2, v2, steps) = shrink_case(p, case.clone(), &v.class, 400);
                let v2 = if steps == 0 { v.clone() } else { v2 };
                (serde_json::to_value(&c2).unwrap_or(Value::Null), v2, steps)
            }
            (Some(case), _) => (serde_json::to_value(case).unwrap_or(Value::Null), v.clone(), 0),
            (None, _) => {
                // abort/hang in a child: regenerate the case from the seed for the replay file
                let rc = RunCtx {
                    seed: opts.seed,
                    index: c.index,
                    run_seed: rng::run_seed(opts.seed, id, c.index),
                    tier: opts.tier,
                };
                let case = p.generate(&rc);
                (serde_json::to_value(&case).unwrap_or(Value::Null), v.clone(), 0)
            }
        };
        let rf = ReplayFile {
            property: id.to_string(),
            seed: opts.seed,
            index: c.index,
            tier: opts.tier.name().into(),
            class: final_v.class.clone(),
            detail: final_v.detail.clone(),
            shrink_steps: steps,
            case: final_case,
        };
        match write_replay(&replay_dir, &rf) {
            Ok(path) => {
                if first_of_class {
                    // a violation that is itself nondeterminism of the system under test (C19)
                    // may need more than one attempt; anything else reproduces at once
                    let mut last = Ok(());
                    for _ in 0..4 {
                        last = replay_in_fresh_process(id, &path, &rf.class);
                        if last.is_ok() {
                            break;
                        }
                    }
                    if let Err(e) = last {
                        eprintln!("HARNESS-ERROR property={id}: {e}");
                        return 2;
                    }
                }
                println!("violation: run={} class={} shrink_steps={} {}", c.index, rf.class, steps, rf.detail);
                println!("VIOLATION property={id} replay={}", path.display());
                violations_reported += 1;
            }
            Err(e) => {
                eprintln!("HARNESS-ERROR cannot write replay: {e}");
                return 2;
            }
        }
    }
    if !violating.is_empty() {
        println!("violation classes (incl. listed known findings): {:?}", agg.class_counts);
    }
    unlisted += agg.violating_dropped;
    for (fid, n) in &known_hits {
        if let Some((_, what)) = known.iter().find(|(k, _)| k == fid) {
            println!("KNOWN-FINDING: property={id} {fid}: {what} [{n} case(s) in this run]");
        }
    }

    // 3b. cross-configuration check
    if exit == 0 && opts.digests_out.is_none() {
        match p.cross_check(opts, n_done, &digests, &mut counters) {
            Ok(None) => {}
            Ok(Some((index, class, detail))) => {
                let rc = RunCtx { seed: opts.seed, index, run_seed: rng::run_seed(opts.seed, id, index), tier: opts.tier };
                let case = p.generate(&rc);
                let rf = ReplayFile {
                    property: id.to_string(),
                    seed: opts.seed,
                    index,
                    tier: opts.tier.name().into(),
                    class: class.clone(),
                    detail: detail.clone(),
                    shrink_steps: 0,
                    case: serde_json::to_value(&case).unwrap_or(Value::Null),
                };
                match write_replay(&replay_dir, &rf) {
                    Ok(path) => {
                        println!("violation: run={index} class={class} {detail}");
                        println!("VIOLATION property={id} replay={}", path.display());
                        unlisted += 1;
                        exit = 1;
                    }
                    Err(e) => {
                        eprintln!("HARNESS-ERROR cannot write replay: {e}");
                        return 2;
                    }
                }
            }
            Err(e) => {
                eprintln!("HARNESS-ERROR property={id} cross check: {e}");
                return 2;
            }
        }
    }

    // 4. evidence
    let wall = started.elapsed().as_secs_f64();
    let meta = p.meta();
    let mut missing_probes = Vec::new();
    if opts.tier == Tier::Thorough && opts.runs_override.is_none() {
        for rp in &meta.required_probes {
            if counters.get(&format!("probe.{rp}")).copied().unwrap_or(0) == 0 {
                missing_probes.push(rp.clone());
            }
        }
    }
    if samples.is_empty() {
        samples.push(json!({"note": "no sample recorded"}));
    }
    let mut faults = BTreeMap::new();
    let mut probes = BTreeMap::new();
    let mut other = BTreeMap::new();
    for (k, v) in &counters {
        if let Some(r) = k.strip_prefix("faults.") {
            faults.insert(r.to_string(), *v);
        } else if let Some(r) = k.strip_prefix("probe.") {
            probes.insert(r.to_string(), *v);
        } else {
            other.insert(k.clone(), *v);
        }
    }
    let evidence = json!({
        "property_id": id,
        "tier": opts.tier.name(),
        "seed": opts.seed,
        "level": meta.level,
        "wall_s": wall,
        "violations": unlisted + if exit == 1 && unlisted == 0 { violations_reported } else { 0 },
        "coverage": {
            "evaluations": evaluations + regression_count,
            "distinct_nontrivial": fps.len(),
            "rule": meta.rule,
            "samples": samples,
            "runs": n_done,
            "runs_planned": total,
            "regression_inputs": regression_count,
            "runs_per_hour": if wall > 0.0 { (n_done as f64 / wall * 3600.0) as u64 } else { 0 },
            "evaluations_per_hour": if wall > 0.0 { (evaluations as f64 / wall * 3600.0) as u64 } else { 0 },
            "simulated_time": {"device_operations": sim_ops, "bytes_moved": sim_bytes},
            "faults": faults,
            "reach_probes": probes,
            "counters": other,
            "maxima": maxima,
            "distinct_values_reached": sets.iter().map(|(k, v)| (k.clone(), v.len())).collect::<BTreeMap<String, usize>>(),
            "known_findings_hit": known_hits,
            "components": {"real": meta.real, "stub": meta.stub},
            "exhaustive": false,
        },
        "assumptions": meta.assumptions,
    });
    if !opts.no_evidence {
        let dir = opts.verif_dir.join("evidence");
        if let Err(e) = std::fs::create_dir_all(&dir) {
            eprintln!("HARNESS-ERROR cannot create evidence dir: {e}");
            return 2;
        }
        let path = dir.join(format!("{id}.json"));
        match serde_json::to_string_pretty(&evidence) {
            Ok(t) => {
                if let Err(e) = std::fs::write(&path, t) {
                    eprintln!("HARNESS-ERROR cannot write evidence: {e}");
                    return 2;
                }
            }
            Err(e) => {
                eprintln!("HARNESS-ERROR cannot serialise evidence: {e}");
                return 2;
            }
        }
    }
    println!(
        "summary property={id} runs={n_done}/{total} evaluations={evaluations} distinct_nontrivial={} violations={unlisted} known={} wall={wall:.1}s",
        fps.len(),
        known_hits.values().sum::<u64>()
    );
    if !missing_probes.is_empty() {
        eprintln!("HARNESS-ERROR property={id} reach probes stuck at zero in thorough tier: {missing_probes:?}");
        if exit == 0 {
            return 2;
        }
    }
    if fps.len() < 2 && exit == 0 {
        eprintln!("HARNESS-ERROR property={id} fewer than 2 distinct non-trivial cases");
        return 2;
    }
    exit
}
