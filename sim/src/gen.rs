//! Seeded workload generators (swarm style): prototypes, point values, metadata, programs.

use crate::model::*;
use crate::program::*;
use crate::rng::Rng;
use crate::simdisk::Chunk;

// ------------------------------------------------------------------ values

pub fn gen_f64_bits(r: &mut Rng) -> u64 {
    match r.below(16) {
        0 => 0,
        1 => 0x8000_0000_0000_0000,
        2 => f64::INFINITY.to_bits(),
        3 => f64::NEG_INFINITY.to_bits(),
        4 => 0x7FF8_0000_0000_0000 | r.below(1 << 20), // quiet NaN with payload
        5 => 0x7FF0_0000_0000_0001 + r.below(1 << 30), // signalling NaN with payload
        6 => r.range(1, 0x000F_FFFF_FFFF_FFFF),         // subnormal
        7 => f64::MAX.to_bits(),
        8 => f64::MIN_POSITIVE.to_bits(),
        9 => r.next_u64(),
        10 | 11 => ((r.irange(-100_000, 100_000) as f64) / 1000.0).to_bits(),
        _ => ((r.next_u64() >> 11) as f64 / (1u64 << 53) as f64 * 200.0 - 100.0).to_bits(),
    }
}

pub fn gen_f32_bits(r: &mut Rng) -> u32 {
    match r.below(16) {
        0 => 0,
        1 => 0x8000_0000,
        2 => f32::INFINITY.to_bits(),
        3 => f32::NEG_INFINITY.to_bits(),
        4 => 0x7FC0_0000 | r.below(1 << 12) as u32,
        5 => 0x7F80_0001 + r.below(1 << 20) as u32,
        6 => r.range(1, 0x007F_FFFF) as u32,
        7 => f32::MAX.to_bits(),
        8 => f32::MIN_POSITIVE.to_bits(),
        9 => r.next_u64() as u32,
        10 | 11 => ((r.irange(-100_000, 100_000) as f32) / 1000.0).to_bits(),
        _ => (((r.next_u64() >> 40) as f32 / (1u32 << 24) as f32) * 200.0 - 100.0).to_bits(),
    }
}

/// A finite, well-behaved f64 (for metadata and for coordinates that are post-processed).
pub fn gen_finite(r: &mut Rng) -> f64 {
    if r.chance(1, 12) {
        // finite values that need all 17 significant digits or sit at the ends of the range
        return *r.pick(&[
            f64::MAX,
            f64::MIN,
            f64::MIN_POSITIVE,
            5e-324,
            1.2345678901234566e-9,
            -9.876543210987654e25,
            1.7976931348623155e308,
            2.2250738585072009e-308,
            0.1 + 0.2,
            1e21,
            1e-7,
            123456789012345680000.0,
            -0.0,
        ]);
    }
    match r.below(8) {
        0 => 0.0,
        1 => 1.0,
        2 => -1.0,
        3 => r.irange(-1000, 1000) as f64,
        4 => (r.irange(-1_000_000, 1_000_000) as f64) / 1024.0,
        5 => 1e-7 * r.irange(-9999, 9999) as f64,
        6 => 12345.678 * r.irange(-50, 50) as f64,
        _ => (r.next_u64() >> 11) as f64 / (1u64 << 53) as f64,
    }
}

pub fn gen_int_in(r: &mut Rng, min: i64, max: i64) -> i64 {
    if min >= max {
        return min;
    }
    match r.below(10) {
        0 => min,
        1 => max,
        2 => min.saturating_add(1).min(max),
        3 => max.saturating_sub(1).max(min),
        4 => {
            // around powers of two above min
            let span = (max as i128 - min as i128) as u128;
            let bit = r.below(int_bits(min, max) as u64) as u32;
            let off = (1u128 << bit).saturating_sub(r.below(2) as u128).min(span);
            (min as i128 + off as i128) as i64
        }
        5 => {
            if min <= 0 && max >= 0 {
                0
            } else {
                min
            }
        }
        _ => r.irange(min, max),
    }
}

pub fn gen_value(r: &mut Rng, dt: &DType) -> Val {
    match dt {
        DType::Single { .. } => Val::S(gen_f32_bits(r)),
        DType::Double { .. } => Val::D(gen_f64_bits(r)),
        DType::Int { min, max } => Val::I(gen_int_in(r, *min, *max)),
        DType::Scaled { min, max, .. } => Val::SI(gen_int_in(r, *min, *max)),
    }
}

/// Valid points for a prototype: a pure function of (prototype, n, seed).
pub fn gen_points(proto: &[Rec], n: usize, seed: u64) -> Vec<Point> {
    let mut r = Rng::new(seed ^ 0xA5A5_5A5A_1234_8765);
    (0..n)
        .map(|_| {
            if r.chance(1, 64) {
                // a point whose values are special all at once: every float the same special
                // value, every integer at its minimum (or every one at its maximum)
                let f = r.below(6);
                let at_min = r.chance(2, 3);
                let f64v = [f64::NAN, f64::INFINITY, f64::NEG_INFINITY, -0.0, 0.0, f64::MAX][f as usize];
                let f32v = [f32::NAN, f32::INFINITY, f32::NEG_INFINITY, -0.0, 0.0, f32::MAX][f as usize];
                proto
                    .iter()
                    .map(|rec| match &rec.dt {
                        DType::Single { .. } => Val::S(f32v.to_bits()),
                        DType::Double { .. } => Val::D(f64v.to_bits()),
                        DType::Int { min, max } => Val::I(if at_min { *min } else { *max }),
                        DType::Scaled { min, max, .. } => Val::SI(if at_min { *min } else { *max }),
                    })
                    .collect()
            } else {
                proto.iter().map(|rec| gen_value(&mut r, &rec.dt)).collect()
            }
        })
        .collect()
}

// ------------------------------------------------------------------ types

/// Integer range with a drawn bit width 0..=64.
pub fn gen_int_range(r: &mut Rng) -> (i64, i64) {
    const WIDTHS: [u32; 22] = [0, 1, 1, 2, 3, 4, 7, 8, 8, 9, 12, 15, 16, 17, 24, 31, 32, 33, 48, 63, 64, 64];
    let bits = if r.chance(3, 4) { *r.pick(&WIDTHS) } else { r.below(65) as u32 };
    if bits == 0 {
        let v = *r.pick(&[0i64, 1, -1, 5, i64::MIN, i64::MAX, 255]);
        return (v, v);
    }
    // span in [2^(bits-1), 2^bits - 1]
    let lo: u128 = 1u128 << (bits - 1);
    let hi: u128 = (1u128 << bits) - 1;
    let span: u128 = match r.below(4) {
        0 => lo,
        1 => hi,
        2 => (lo + 1).min(hi),
        _ => lo + (r.next_u64() as u128 % (hi - lo + 1)),
    };
    let max_min: i128 = i64::MAX as i128 - span as i128; // min may be at most this
    let min: i128 = match r.below(6) {
        0 => i64::MIN as i128,
        1 => max_min,
        2 => 0i128.min(max_min).max(i64::MIN as i128),
        3 => (-(span as i128) / 2).max(i64::MIN as i128).min(max_min),
        4 => (-(r.below(1000) as i128)).max(i64::MIN as i128).min(max_min),
        _ => {
            let room = (max_min - i64::MIN as i128) as u128;
            if room == 0 {
                i64::MIN as i128
            } else {
                i64::MIN as i128 + (r.next_u64() as u128 % (room + 1)) as i128
            }
        }
    };
    let max = min + span as i128;
    (min as i64, max as i64)
}

/// f64 -> f32 without leaving the finite range (limits and type ranges must stay finite)
fn finite32(v: f64) -> f32 {
    let f = v as f32;
    if f.is_finite() {
        f
    } else if v > 0.0 {
        1e30
    } else {
        -1e30
    }
}

fn gen_float_limits32(r: &mut Rng) -> (Option<B32>, Option<B32>) {
    match r.below(4) {
        0 => (None, None),
        1 => (Some(B32::of(0.0)), Some(B32::of(1.0))),
        2 => {
            let a = finite32(gen_finite(r));
            let b = finite32(a as f64 + r.below(1000) as f64);
            (Some(B32::of(a)), Some(B32::of(b)))
        }
        _ => {
            if r.chance(1, 2) {
                (Some(B32::of(-5.5)), None)
            } else {
                (None, Some(B32::of(1e6)))
            }
        }
    }
}

fn gen_float_limits64(r: &mut Rng) -> (Option<B64>, Option<B64>) {
    match r.below(4) {
        0 => (None, None),
        1 => (Some(B64::of(0.0)), Some(B64::of(1.0))),
        2 => {
            let a = gen_finite(r);
            let b = a + (r.below(1000) as f64);
            (Some(B64::of(a)), Some(B64::of(b)))
        }
        _ => {
            if r.chance(1, 2) {
                (Some(B64::of(-5.5)), None)
            } else {
                (None, Some(B64::of(1e6)))
            }
        }
    }
}

fn gen_scale_offset(r: &mut Rng) -> (B64, B64) {
    // (the last three are subnormal or next to it: legal, and not "normal" floating-point numbers)
    let scale = *r.pick(&[1.0f64, 0.001, 0.5, 0.0001, 2.0, 1e-6, 3.0, -0.25, 0.1, 1.0, 0.001, 0.01, 1e-310, 5e-324, 2.3e-308]);
    let offset = *r.pick(&[0.0f64, 0.0, 100.0, -1.5, 1e6, 0.333, -0.0]);
    (B64::of(scale), B64::of(offset))
}

/// kind mask: bit0 single, bit1 double, bit2 int, bit3 scaled
pub fn gen_dtype(r: &mut Rng, allowed: u8) -> DType {
    let mut kinds = Vec::new();
    for k in 0..4u8 {
        if allowed & (1 << k) != 0 {
            kinds.push(k);
        }
    }
    match *r.pick(&kinds) {
        0 => {
            let (min, max) = gen_float_limits32(r);
            DType::Single { min, max }
        }
        1 => {
            let (min, max) = gen_float_limits64(r);
            DType::Double { min, max }
        }
        2 => {
            let (min, max) = gen_int_range(r);
            DType::Int { min, max }
        }
        _ => {
            let (min, max) = gen_int_range(r);
            let (scale, offset) = gen_scale_offset(r);
            DType::Scaled { min, max, scale, offset }
        }
    }
}

pub const EXT_NS_POOL: [&str; 4] = ["ext", "nor", "a-b_c", "Q9"];
pub const EXT_URL_POOL: [&str; 8] = [
    "http://www.libe57.org/E57_EXT_surface_normals.txt",
    "http://example.org/e57/ext",
    "urn:sim:ext",
    "http://example.org/q?a=1",
    "http://example.org/q?a=1&b=2",
    "http://example.org/\"quoted\"/<x>'",
    // text that looks like an entity or a character reference is plain text in a URL
    "http://example.org/q?lang=en&amp;rev=2&lt;3",
    "http://example.org/q?x=&#38;&apos;",
];
pub const EXT_NAME_POOL: [&str; 8] = ["normalX", "classification", "some-thing_1", "A", "z9", "intensity", "cartesianX", "rowIndex"];

#[derive(Clone, Debug)]
pub struct ProtoCfg {
    /// allow extension attributes (needs registered namespaces)
    pub ext_ns: Vec<String>,
    /// restrict to what the simple iterator documents (integer invalid states etc. are always so)
    pub max_records: usize,
    /// use local names equal to standard names for extension attributes (F19 territory)
    pub std_like_ext_names: bool,
}

/// A prototype that follows the writer's documented rules and has at least one sized record.
pub fn gen_proto(r: &mut Rng, cfg: &ProtoCfg) -> Vec<Rec> {
    use std_name::*;
    loop {
        let mut recs: Vec<Rec> = Vec::new();
        let coord = r.below(5); // 0,1,2 cart; 3 sph; 4 both
        let cart = coord != 3;
        let sph = coord >= 3;
        let all = 0b1111u8;
        if cart {
            // one type class for the three components most of the time
            let same = r.chance(3, 4);
            let dt = gen_dtype(r, all);
            for i in [CX, CY, CZ] {
                let d = if same { dt.clone() } else { gen_dtype(r, all) };
                recs.push(Rec { name: Name::Std(i), dt: d });
            }
            if r.chance(1, 3) {
                recs.push(Rec { name: Name::Std(CINV), dt: DType::Int { min: 0, max: 2 } });
            }
        }
        if sph {
            recs.push(Rec { name: Name::Std(SR), dt: gen_dtype(r, all) });
            recs.push(Rec { name: Name::Std(SA), dt: gen_dtype(r, 0b1011) });
            recs.push(Rec { name: Name::Std(SE), dt: gen_dtype(r, 0b1011) });
            if r.chance(1, 3) {
                recs.push(Rec { name: Name::Std(SINV), dt: DType::Int { min: 0, max: 2 } });
            }
        }
        if r.chance(1, 2) {
            let same = r.chance(3, 4);
            let dt = if r.chance(1, 2) { DType::Int { min: 0, max: 255 } } else { gen_dtype(r, all) };
            for i in [RED, GREEN, BLUE] {
                let d = if same { dt.clone() } else { gen_dtype(r, all) };
                recs.push(Rec { name: Name::Std(i), dt: d });
            }
            if r.chance(1, 3) {
                recs.push(Rec { name: Name::Std(COLINV), dt: DType::Int { min: 0, max: 1 } });
            }
        }
        if r.chance(1, 2) {
            recs.push(Rec { name: Name::Std(INT), dt: gen_dtype(r, all) });
            if r.chance(1, 3) {
                recs.push(Rec { name: Name::Std(IINV), dt: DType::Int { min: 0, max: 1 } });
            }
        }
        if r.chance(1, 4) {
            // usually both, sometimes only one of the two (the writer's rules allow either alone)
            let which: &[u8] = match r.below(4) {
                0 => &[ROW],
                1 => &[COL],
                _ => &[ROW, COL],
            };
            for i in which {
                let (min, max) = gen_int_range(r);
                recs.push(Rec { name: Name::Std(*i), dt: DType::Int { min, max } });
            }
        }
        if r.chance(1, 5) {
            for i in [RCOUNT, RINDEX] {
                let (min, max) = gen_int_range(r);
                recs.push(Rec { name: Name::Std(i), dt: DType::Int { min, max } });
            }
        }
        if r.chance(1, 5) {
            recs.push(Rec { name: Name::Std(TIME), dt: gen_dtype(r, all) });
            if r.chance(1, 3) {
                recs.push(Rec { name: Name::Std(TINV), dt: DType::Int { min: 0, max: 1 } });
            }
        }
        if !cfg.ext_ns.is_empty() {
            let n = r.below(3);
            for _ in 0..n {
                let ns = r.pick(&cfg.ext_ns).clone();
                let pool: &[&str] = if cfg.std_like_ext_names { &EXT_NAME_POOL } else { &EXT_NAME_POOL[..5] };
                let name = r.pick(pool).to_string();
                let nm = Name::Ext { ns, name };
                if !recs.iter().any(|x| x.name == nm) {
                    recs.push(Rec { name: nm, dt: gen_dtype(r, all) });
                }
            }
        }
        // shuffle order
        for i in (1..recs.len()).rev() {
            let j = r.usize_below(i + 1);
            recs.swap(i, j);
        }
        if recs.len() > cfg.max_records {
            continue;
        }
        if recs.iter().all(|x| x.dt.bits() == 0) {
            continue;
        }
        return recs;
    }
}

/// The library's own data packet capacity in points (used to size workloads, not as an oracle).
pub fn packet_capacity(proto: &[Rec]) -> usize {
    let bits: usize = proto.iter().map(|r| r.dt.bits() as usize).sum();
    if bits == 0 {
        return usize::MAX;
    }
    let n = proto.len();
    let avail = 65535usize.saturating_sub(6 + 2 * n + n + 500);
    avail * 8 / bits
}

// ------------------------------------------------------------------ strings & metadata

pub const STRING_POOL: [&str; 28] = [
    "scan",
    "Station 001",
    "",
    " ",
    "  \t ",
    "a<b",
    "x & y",
    "\"quoted\" 'single'",
    "]]>",
    "pre]]>post]]>",
    "]]",
    "<![CDATA[nested]]>",
    "&amp; &lt; &#65;",
    "line1\nline2",
    "Grüße äöü",
    "日本語テキスト",
    "emoji 😀 astral 𝄞",
    "trailing space ",
    " leading",
    "{3F2504E0-4F89-41D3-9A0C-0305E82C3301}",
    "<?pi?> <!-- not a comment -->",
    "a]]b]>c>",
    "\u{7f}\u{80}\u{fffd}",
    "tab\tsep",
    // the characters on both sides of the surrogate gap and at the upper end of XML's Char range
    "edge\u{d7ff}\u{e000}",
    "\u{fffd}\u{10ffff}",
    // more than two brackets in front of '>', and a run of them at the very end
    "x]]]>y]]]]>",
    "tail]]]",
];

/// strings without the characters that need the CDATA-split repair
pub fn gen_string(r: &mut Rng, nasty: bool) -> String {
    if nasty {
        r.pick(&STRING_POOL).to_string()
    } else {
        loop {
            let s = *r.pick(&STRING_POOL);
            if !s.contains("]]>") {
                return s.to_string();
            }
        }
    }
}

pub fn gen_guid(r: &mut Rng) -> String {
    format!(
        "{{{:08X}-{:04X}-{:04X}-{:04X}-{:012X}}}",
        r.next_u64() as u32,
        r.next_u64() as u16,
        r.next_u64() as u16,
        r.next_u64() as u16,
        r.next_u64() & 0xFFFF_FFFF_FFFF
    )
}

pub fn gen_dt(r: &mut Rng) -> DT {
    DT {
        gps: B64::of(match r.below(4) {
            0 => 0.0,
            1 => 1_234_567_890.125,
            2 => gen_finite(r),
            _ => 987_654_321.0 + r.below(1_000_000) as f64 / 8.0,
        }),
        atomic: r.chance(1, 2),
    }
}

pub fn gen_xform(r: &mut Rng) -> Xform {
    let rot = match r.below(6) {
        5 => {
            // a very small rotation about a coordinate axis or the diagonal
            let theta: f64 = *r.pick(&[1e-9, 1e-7, 1e-6, 2e-6, 1e-5, 1e-3]);
            let (s, c) = ((theta / 2.0).sin(), (theta / 2.0).cos());
            match r.below(4) {
                0 => [c, s, 0.0, 0.0],
                1 => [c, 0.0, s, 0.0],
                2 => [c, 0.0, 0.0, s],
                _ => {
                    let k = s / 3f64.sqrt();
                    [c, k, k, k]
                }
            }
        }
        0 => [1.0, 0.0, 0.0, 0.0],
        1 => [0.0, 1.0, 0.0, 0.0],
        2 => [std::f64::consts::FRAC_1_SQRT_2, 0.0, 0.0, std::f64::consts::FRAC_1_SQRT_2],
        3 => [0.5, 0.5, 0.5, 0.5],
        _ => {
            // random unit quaternion
            let mut q = [gen_finite(r), gen_finite(r), gen_finite(r), gen_finite(r)];
            let n = (q[0] * q[0] + q[1] * q[1] + q[2] * q[2] + q[3] * q[3]).sqrt();
            if n > 1e-6 && n.is_finite() {
                for v in q.iter_mut() {
                    *v /= n;
                }
                q
            } else {
                [1.0, 0.0, 0.0, 0.0]
            }
        }
    };
    // now and then no translation at all (with the identity rotation: an explicit identity pose)
    let tr = if r.chance(1, 4) { [0.0; 3] } else { [gen_finite(r), gen_finite(r), gen_finite(r)] };
    Xform {
        rot: [B64::of(rot[0]), B64::of(rot[1]), B64::of(rot[2]), B64::of(rot[3])],
        tr: [B64::of(tr[0]), B64::of(tr[1]), B64::of(tr[2])],
    }
}

fn gen_lim_for(r: &mut Rng, dt: &DType) -> Lim {
    // now and then a limit of another value kind than the record (the API stores it as given)
    if r.chance(1, 6) {
        return match r.below(3) {
            0 => Lim::D(B64::of(gen_finite(r))),
            1 => Lim::S(B32::of(finite32(gen_finite(r)))),
            _ => Lim::I(r.irange(-1000, 100_000)),
        };
    }
    match dt {
        DType::Single { .. } => Lim::S(B32::of(finite32(gen_finite(r)))),
        DType::Double { .. } => Lim::D(B64::of(gen_finite(r))),
        DType::Int { min, max } => Lim::I(gen_int_in(r, *min, *max)),
        DType::Scaled { min, max, .. } => Lim::SI(gen_int_in(r, *min, *max)),
    }
}

/// Ordered (min <= max) limits of the record's own value kind.
fn gen_lim_pair(r: &mut Rng, dt: &DType) -> (Lim, Lim) {
    let a = gen_lim_for(r, dt);
    let b = gen_lim_for(r, dt);
    let le = match (&a, &b) {
        (Lim::S(x), Lim::S(y)) => x.f() <= y.f(),
        (Lim::D(x), Lim::D(y)) => x.f() <= y.f(),
        (Lim::I(x), Lim::I(y)) | (Lim::SI(x), Lim::SI(y)) => x <= y,
        _ => true,
    };
    if le {
        (a, b)
    } else {
        (b, a)
    }
}

pub struct MetaCfg {
    /// probability (per mille) that an optional field is set
    pub density: u32,
    pub nasty_strings: bool,
}

pub fn gen_pc_fields(r: &mut Rng, proto: &[Rec], cfg: &MetaCfg) -> Vec<PcField> {
    let mut out = Vec::new();
    let on = |r: &mut Rng| r.below(1000) < cfg.density as u64;
    let s = |r: &mut Rng| Some(gen_string(r, cfg.nasty_strings));
    if on(r) {
        out.push(PcField::Name(s(r)));
    }
    if on(r) {
        out.push(PcField::Description(s(r)));
    }
    if on(r) {
        let n = r.below(3);
        out.push(PcField::OriginalGuids(Some((0..n).map(|_| gen_guid(r)).collect())));
    }
    if on(r) {
        out.push(PcField::Transform(Some(gen_xform(r))));
    }
    if on(r) {
        out.push(PcField::AcqStart(Some(gen_dt(r))));
    }
    if on(r) {
        out.push(PcField::AcqEnd(Some(gen_dt(r))));
    }
    if on(r) {
        out.push(PcField::SensorVendor(s(r)));
    }
    if on(r) {
        out.push(PcField::SensorModel(s(r)));
    }
    if on(r) {
        out.push(PcField::SensorSerial(s(r)));
    }
    if on(r) {
        out.push(PcField::SensorHw(s(r)));
    }
    if on(r) {
        out.push(PcField::SensorSw(s(r)));
    }
    if on(r) {
        out.push(PcField::SensorFw(s(r)));
    }
    if on(r) {
        out.push(PcField::Temperature(Some(B64::of(gen_finite(r)))));
    }
    if on(r) {
        out.push(PcField::Humidity(Some(B64::of(gen_finite(r)))));
    }
    if on(r) {
        out.push(PcField::Pressure(Some(B64::of(gen_finite(r)))));
    }
    use std_name::*;
    if let Some(rec) = proto.iter().find(|x| x.name == Name::Std(INT)) {
        if on(r) {
            out.push(match r.below(4) {
                0 => PcField::IntensityLimits(None),
                1 => PcField::IntensityLimits(Some(ILim { min: Some(gen_lim_for(r, &rec.dt)), max: None })),
                _ => {
                    let (a, b) = gen_lim_pair(r, &rec.dt);
                    PcField::IntensityLimits(Some(ILim { min: Some(a), max: Some(b) }))
                }
            });
        }
    }
    let find = |i: u8| proto.iter().find(|x| x.name == Name::Std(i));
    if let (Some(red), Some(green), Some(blue)) = (find(RED), find(GREEN), find(BLUE)) {
        if on(r) {
            out.push(match r.below(4) {
                0 => PcField::ColorLimits(None),
                1 => {
                    let (a, b) = gen_lim_pair(r, &red.dt);
                    PcField::ColorLimits(Some(CLim([Some(a), Some(b), None, None, None, None])))
                }
                _ => {
                    let (a, b) = gen_lim_pair(r, &red.dt);
                    let (c, d) = gen_lim_pair(r, &green.dt);
                    let (e, f) = gen_lim_pair(r, &blue.dt);
                    PcField::ColorLimits(Some(CLim([Some(a), Some(b), Some(c), Some(d), Some(e), Some(f)])))
                }
            });
        }
    }
    // repeat one setter sometimes (last call wins)
    if !out.is_empty() && r.chance(1, 6) {
        let again = out[r.usize_below(out.len())].clone();
        out.push(again);
    }
    out
}

pub fn gen_img_fields(r: &mut Rng, cfg: &MetaCfg) -> Vec<ImgField> {
    let mut out = Vec::new();
    let on = |r: &mut Rng| r.below(1000) < cfg.density as u64;
    if on(r) {
        out.push(ImgField::Name(gen_string(r, cfg.nasty_strings)));
    }
    if on(r) {
        out.push(ImgField::Description(gen_string(r, cfg.nasty_strings)));
    }
    if on(r) {
        out.push(ImgField::PcGuid(gen_guid(r)));
    }
    if on(r) {
        out.push(ImgField::Transform(gen_xform(r)));
    }
    if on(r) {
        out.push(ImgField::Acquisition(gen_dt(r)));
    }
    if on(r) {
        out.push(ImgField::SensorVendor(gen_string(r, cfg.nasty_strings)));
    }
    if on(r) {
        out.push(ImgField::SensorModel(gen_string(r, cfg.nasty_strings)));
    }
    if on(r) {
        out.push(ImgField::SensorSerial(gen_string(r, cfg.nasty_strings)));
    }
    out
}

// ------------------------------------------------------------------ blobs, images

/// Blob lengths around page and alignment boundaries.
pub fn gen_blob_len(r: &mut Rng) -> usize {
    match r.below(8) {
        0 => r.usize_below(9),
        1 => 1020 - 64 - 16 + r.usize_below(9) - 4, // around the first page boundary behind a header
        2 => 1000 + r.usize_below(48),
        3 => 2030 + r.usize_below(24),
        4 => r.usize_below(3 * 1020 + 9),
        5 => 3 * 1020 + r.usize_below(9),
        6 => 8180 + r.usize_below(40), // around io::copy's 8 KiB buffer
        _ => r.usize_below(600),
    }
}

pub fn gen_rep(r: &mut Rng, kind: RepKind, chunk: &mut Rng) -> RepSpec {
    let nf = match kind {
        RepKind::Visual => 0,
        RepKind::Pinhole => 5,
        RepKind::Spherical => 2,
        RepKind::Cylindrical => 4,
    };
    let dlen = gen_blob_len(r);
    let mlen = gen_blob_len(r);
    RepSpec {
        kind,
        format: if r.chance(1, 2) { Format::Png } else { Format::Jpeg },
        data: Bytes::draw(r, dlen),
        mask: if r.chance(1, 2) { Some(Bytes::draw(r, mlen)) } else { None },
        props: RepProps {
            width: *r.pick(&[0u32, 1, 640, 4096, u32::MAX]),
            height: *r.pick(&[0u32, 1, 480, 2048, u32::MAX]),
            floats: (0..nf).map(|_| B64::of(gen_finite(r))).collect(),
        },
        pipe: Chunk::draw(chunk),
    }
}

// ------------------------------------------------------------------ programs

#[derive(Clone, Debug)]
pub struct ProgCfg {
    pub max_items: usize,
    /// knob values to draw from (None = library capacity)
    pub knob: Option<usize>,
    /// filler blob so that the first real section starts at this residue modulo 1020
    pub placement_residue: Option<u32>,
    pub nasty_strings: bool,
    pub ext: bool,
    pub allow_abandon: bool,
    /// upper bound of points per cloud when the knob is off
    pub max_points_knob_off: usize,
    pub custom_xml: bool,
    /// small programs for enumerating checks (few points, blobs of at most a few pages)
    pub small: bool,
    /// per-mille chance that a program contains one item beyond small-test scale: a cloud of
    /// 3 000 - 70 000 points (byte streams longer than 32 767 / 65 535 bytes, packets at the 64 KiB
    /// limit, more than 65 535 points) or a blob of 64 - 200 KiB
    pub big_permille: u32,
}

pub fn gen_point_count(r: &mut Rng, proto: &[Rec], knob: Option<usize>, max_knob_off: usize) -> usize {
    match knob {
        Some(c) => {
            let c = c.max(1);
            let n = match r.below(12) {
                0 => 0,
                1 => 1,
                2 => 2,
                3 => c.saturating_sub(1),
                4 => c,
                5 => c + 1,
                6 => 2 * c,
                7 => 2 * c + 1,
                8 => 3 * c - 1,
                _ => r.usize_below(200),
            };
            n.min(400)
        }
        None => {
            let cap = packet_capacity(proto);
            match r.below(8) {
                0 => 0,
                1 => 1,
                2 => 2,
                3 => 3 + r.usize_below(18),
                4 | 5 => {
                    if cap <= max_knob_off {
                        // one packet +- 1, or several packets
                        let k = 1 + r.usize_below(3);
                        (k * cap + r.usize_below(3)).saturating_sub(1).min(max_knob_off)
                    } else {
                        r.usize_below(500)
                    }
                }
                _ => r.usize_below(300),
            }
        }
    }
}

pub fn gen_program(run_seed: u64, cfg: &ProgCfg) -> Program {
    let mut r = Rng::stream(run_seed, "gen");
    let mut ch = Rng::stream(run_seed, "chunk");
    let density = *r.pick(&[0u32, 200, 800]);
    let mcfg = MetaCfg { density, nasty_strings: cfg.nasty_strings };
    let mut calls = Vec::new();
    let mut ext_ns: Vec<String> = Vec::new();
    if cfg.ext && r.chance(1, 2) {
        let n = 1 + r.usize_below(2);
        for i in 0..n {
            let ns = EXT_NS_POOL[(r.usize_below(EXT_NS_POOL.len()) + i) % EXT_NS_POOL.len()].to_string();
            if !ext_ns.contains(&ns) {
                // distinct URL per prefix: two prefixes bound to one URI are aliases in XML and the
                // reader may legitimately report either
                let url = EXT_URL_POOL[(r.usize_below(EXT_URL_POOL.len()) + i) % EXT_URL_POOL.len()].to_string();
                if calls.iter().any(|c| matches!(c, Call::RegisterExt { url: u, .. } if *u == url)) {
                    continue;
                }
                calls.push(Call::RegisterExt { ns: ns.clone(), url });
                ext_ns.push(ns);
            }
        }
    }
    if r.below(1000) < density as u64 {
        calls.push(Call::CoordMeta(Some(gen_string(&mut r, cfg.nasty_strings))));
    }
    if r.below(1000) < density as u64 {
        calls.push(Call::Creation(Some(gen_dt(&mut r))));
    }
    if let Some(res) = cfg.placement_residue {
        // header 48 bytes + blob header 16 + len, next section at the next multiple of 4
        let len = ((res as i64 - 64).rem_euclid(1020)) as usize + 1020 * r.usize_below(2);
        calls.push(Call::Blob { data: Bytes::draw(&mut r, len), pipe: Chunk::draw(&mut ch), fail_after: None });
    }
    let mut items = r.usize_below(cfg.max_items + 1);
    let want_big = !cfg.small && r.below(1000) < cfg.big_permille as u64;
    let mut big_done = false;
    if want_big {
        items = items.max(1);
    }
    let pcfg = ProtoCfg { ext_ns: ext_ns.clone(), max_records: 40, std_like_ext_names: r.chance(1, 4) };
    for _ in 0..items {
        match r.weighted(&[5, 3, 3]) {
            0 => {
                let proto = gen_proto(&mut r, &pcfg);
                let mut n = gen_point_count(&mut r, &proto, cfg.knob, cfg.max_points_knob_off);
                if cfg.small {
                    n = n.min(40);
                }
                if want_big && !big_done && r.chance(1, 2) {
                    big_done = true;
                    n = *r.pick(&[3_000usize, 8_191, 8_192, 16_384, 32_768, 65_535, 65_536, 70_000]);
                    let bits: usize = proto.iter().map(|x| x.dt.bits() as usize).sum();
                    // keep a big cloud below ~3 MiB of payload
                    if bits > 0 {
                        n = n.min(3 * 1024 * 1024 * 8 / bits).max(1);
                    }
                }
                let mut steps: Vec<PcStep> = Vec::new();
                let fields = gen_pc_fields(&mut r, &proto, &mcfg);
                // setters may come any time before finalize: split around the points
                let split = r.usize_below(fields.len() + 1);
                for f in &fields[..split] {
                    steps.push(PcStep::Set(f.clone()));
                }
                if n > 0 {
                    steps.push(PcStep::Points { n, seed: r.next_u64() });
                }
                for f in &fields[split..] {
                    steps.push(PcStep::Set(f.clone()));
                }
                let end = if cfg.allow_abandon && r.chance(1, 8) { SubEnd::Abandon } else { SubEnd::Finalize };
                // GUIDs are not checked for uniqueness by writer or reader: now and then two clouds share one
                let prev: Vec<String> = calls.iter().filter_map(|c| if let Call::Pc { guid, .. } = c { Some(guid.clone()) } else { None }).collect();
                let guid = if !prev.is_empty() && r.chance(1, 12) { r.pick(&prev).clone() } else { gen_guid(&mut r) };
                calls.push(Call::Pc { guid, proto, steps, end });
            }
            1 => {
                let mut len = gen_blob_len(&mut r);
                if cfg.small {
                    len %= 2600;
                }
                if want_big && !big_done && r.chance(1, 2) {
                    big_done = true;
                    len = *r.pick(&[65_535usize, 65_536, 65_537, 70_000, 131_072, 200_003]);
                }
                calls.push(Call::Blob { data: Bytes::draw(&mut r, len), pipe: Chunk::draw(&mut ch), fail_after: None });
            }
            _ => {
                let mut steps = Vec::new();
                for f in gen_img_fields(&mut r, &mcfg) {
                    steps.push(ImgStep::Set(f));
                }
                let which = r.below(4);
                let small = cfg.small;
                let shrink_rep = |mut s: RepSpec| {
                    if small {
                        s.data.len %= 1500;
                        if let Some(m) = s.mask.as_mut() {
                            m.len %= 1100;
                        }
                    }
                    s
                };
                if which != 1 {
                    let kind = *r.pick(&[RepKind::Pinhole, RepKind::Spherical, RepKind::Cylindrical]);
                    let pos = r.usize_below(steps.len() + 1);
                    steps.insert(pos, ImgStep::Rep(shrink_rep(gen_rep(&mut r, kind, &mut ch))));
                }
                if which == 1 || which == 2 {
                    let pos = r.usize_below(steps.len() + 1);
                    steps.insert(pos, ImgStep::Rep(shrink_rep(gen_rep(&mut r, RepKind::Visual, &mut ch))));
                }
                let end = if cfg.allow_abandon && r.chance(1, 8) { SubEnd::Abandon } else { SubEnd::Finalize };
                calls.push(Call::Img { guid: gen_guid(&mut r), steps, end });
            }
        }
    }
    let end = if cfg.custom_xml && r.chance(1, 4) {
        End::FinalizeXml(match r.below(6) {
            0 | 1 => XmlScript::Identity,
            2 | 3 => XmlScript::Edit,
            4 => XmlScript::Append,
            _ => XmlScript::Shorten,
        })
    } else {
        End::Finalize
    };
    Program { guid: gen_guid(&mut r), calls, end, knob: cfg.knob, on_error: OnError::Stop }
}

/// Generic shrink candidates for a program: drop calls, drop steps, fewer points, smaller blobs,
/// full transfers, knob off.
pub fn shrink_program(p: &Program) -> Vec<Program> {
    let mut out = Vec::new();
    for i in 0..p.calls.len() {
        let mut q = p.clone();
        q.calls.remove(i);
        out.push(q);
    }
    for (i, c) in p.calls.iter().enumerate() {
        match c {
            Call::Pc { steps, .. } => {
                for j in 0..steps.len() {
                    let mut q = p.clone();
                    if let Call::Pc { steps: s, .. } = &mut q.calls[i] {
                        s.remove(j);
                    }
                    out.push(q);
                    if let PcStep::Points { n, seed } = &steps[j] {
                        for m in [n / 2, n.saturating_sub(1)] {
                            if m < *n {
                                let mut q = p.clone();
                                if let Call::Pc { steps: s, .. } = &mut q.calls[i] {
                                    s[j] = PcStep::Points { n: m, seed: *seed };
                                }
                                out.push(q);
                            }
                        }
                    }
                }
            }
            Call::Img { steps, .. } => {
                for j in 0..steps.len() {
                    let mut q = p.clone();
                    if let Call::Img { steps: s, .. } = &mut q.calls[i] {
                        s.remove(j);
                    }
                    out.push(q);
                    if let ImgStep::Rep(spec) = &steps[j] {
                        if spec.mask.is_some() {
                            let mut q = p.clone();
                            if let Call::Img { steps: s, .. } = &mut q.calls[i] {
                                if let ImgStep::Rep(sp) = &mut s[j] {
                                    sp.mask = None;
                                }
                            }
                            out.push(q);
                        }
                        if spec.data.len > 0 {
                            let mut q = p.clone();
                            if let Call::Img { steps: s, .. } = &mut q.calls[i] {
                                if let ImgStep::Rep(sp) = &mut s[j] {
                                    sp.data.len /= 2;
                                }
                            }
                            out.push(q);
                        }
                        if spec.pipe != Chunk::Full {
                            let mut q = p.clone();
                            if let Call::Img { steps: s, .. } = &mut q.calls[i] {
                                if let ImgStep::Rep(sp) = &mut s[j] {
                                    sp.pipe = Chunk::Full;
                                }
                            }
                            out.push(q);
                        }
                    }
                }
            }
            Call::Blob { data, pipe, fail_after } => {
                for m in [data.len / 2, data.len.saturating_sub(1), data.len.saturating_sub(4)] {
                    if m < data.len {
                        let mut q = p.clone();
                        q.calls[i] = Call::Blob { data: Bytes { len: m, ..data.clone() }, pipe: pipe.clone(), fail_after: fail_after.map(|k| k.min(m)) };
                        out.push(q);
                    }
                }
                if *pipe != Chunk::Full {
                    let mut q = p.clone();
                    q.calls[i] = Call::Blob { data: data.clone(), pipe: Chunk::Full, fail_after: *fail_after };
                    out.push(q);
                }
                if let Some(k) = fail_after {
                    for m in [k / 2, k.saturating_sub(4), k.saturating_sub(1)] {
                        if m < *k {
                            let mut q = p.clone();
                            q.calls[i] = Call::Blob { data: data.clone(), pipe: pipe.clone(), fail_after: Some(m) };
                            out.push(q);
                        }
                    }
                }
            }
            _ => {}
        }
    }
    // fewer records in a prototype (only non-coordinate records, keeps the rules intact)
    for (i, c) in p.calls.iter().enumerate() {
        if let Call::Pc { proto, steps, .. } = c {
            if steps.iter().any(|s| matches!(s, PcStep::Point(_))) {
                continue;
            }
            for j in 0..proto.len() {
                let removable = match &proto[j].name {
                    Name::Std(k) => *k >= std_name::INT && ![std_name::RED, std_name::GREEN, std_name::BLUE, std_name::RCOUNT, std_name::RINDEX].contains(k)
                        && !(proto[j].name == Name::Std(std_name::INT) && proto.iter().any(|x| x.name == Name::Std(std_name::IINV)))
                        && !(proto[j].name == Name::Std(std_name::TIME) && proto.iter().any(|x| x.name == Name::Std(std_name::TINV))),
                    Name::Ext { .. } => true,
                };
                if removable {
                    let mut q = p.clone();
                    if let Call::Pc { proto: pr, steps: st, .. } = &mut q.calls[i] {
                        pr.remove(j);
                        // limits may refer to removed records: drop limit setters
                        st.retain(|s| !matches!(s, PcStep::Set(PcField::IntensityLimits(_)) | PcStep::Set(PcField::ColorLimits(_))));
                    }
                    out.push(q);
                }
            }
        }
    }
    if p.knob.is_some() {
        let mut q = p.clone();
        q.knob = None;
        out.push(q);
    }
    if p.end != End::Finalize && p.end != End::DropOnly {
        let mut q = p.clone();
        q.end = End::Finalize;
        out.push(q);
    }
    out
}
