//! Simulated block device and pipes: the only I/O the library sees in a run.
//!
//! Every call is one device operation with a global sequence number (the simulator's clock).
//! Per operation the device consults the fault plan and then the chunk schedule.

use crate::rng::Rng;
use serde::{Deserialize, Serialize};
use std::cell::RefCell;
use std::io::{self, ErrorKind, Read, Seek, SeekFrom, Write};
use std::rc::Rc;

#[derive(Clone, Copy, Debug, PartialEq, Eq, Hash, Serialize, Deserialize)]
pub enum OpKind {
    Read,
    Write,
    Seek,
    Flush,
}

impl OpKind {
    pub fn idx(self) -> usize {
        match self {
            OpKind::Read => 0,
            OpKind::Write => 1,
            OpKind::Seek => 2,
            OpKind::Flush => 3,
        }
    }
    pub fn name(self) -> &'static str {
        ["read", "write", "seek", "flush"][self.idx()]
    }
}

/// How a device or pipe splits transfers. Pure function of the stored seed.
#[derive(Clone, Debug, PartialEq, Serialize, Deserialize)]
pub enum Chunk {
    Full,
    One,
    /// With probability `short_permille`/1000 a transfer is cut short at a random length.
    Random { seed: u64, short_permille: u32 },
    /// Transfers are cut at/around 512 and 1024 byte boundaries of the device position.
    Boundary { seed: u64 },
}

impl Chunk {
    pub fn draw(rng: &mut Rng) -> Chunk {
        match rng.weighted(&[3, 1, 2, 2, 2]) {
            0 => Chunk::Full,
            1 => Chunk::One,
            2 => Chunk::Random {
                seed: rng.next_u64(),
                short_permille: 50,
            },
            3 => Chunk::Random {
                seed: rng.next_u64(),
                short_permille: 300,
            },
            _ => Chunk::Boundary {
                seed: rng.next_u64(),
            },
        }
    }
    /// A schedule that never yields full transfers only: used where short I/O must happen.
    pub fn draw_short(rng: &mut Rng) -> Chunk {
        match rng.weighted(&[1, 2, 2]) {
            0 => Chunk::One,
            1 => Chunk::Random {
                seed: rng.next_u64(),
                short_permille: 400,
            },
            _ => Chunk::Boundary {
                seed: rng.next_u64(),
            },
        }
    }
    pub fn name(&self) -> &'static str {
        match self {
            Chunk::Full => "full",
            Chunk::One => "one",
            Chunk::Random { .. } => "random",
            Chunk::Boundary { .. } => "boundary",
        }
    }
}

pub struct Chunker {
    kind: Chunk,
    rng: Rng,
    pub short_transfers: u64,
}

impl Chunker {
    pub fn new(kind: &Chunk) -> Self {
        let seed = match kind {
            Chunk::Random { seed, .. } | Chunk::Boundary { seed } => *seed,
            _ => 0,
        };
        Chunker {
            kind: kind.clone(),
            rng: Rng::new(seed),
            short_transfers: 0,
        }
    }

    /// How many of `want` (> 0) bytes move in this operation; always in 1..=want.
    pub fn next(&mut self, want: usize, pos: u64) -> usize {
        let n = match &self.kind {
            Chunk::Full => want,
            Chunk::One => 1,
            Chunk::Random { short_permille, .. } => {
                if want > 1 && self.rng.below(1000) < *short_permille as u64 {
                    match self.rng.below(4) {
                        0 => 1,
                        1 => want - 1,
                        _ => 1 + self.rng.usize_below(want - 1),
                    }
                } else {
                    want
                }
            }
            Chunk::Boundary { .. } => {
                // distance to the next 512 boundary, then -1, 0, +1, +4 around it
                let to_boundary = (512 - (pos % 512)) as usize;
                let delta = [0isize, -1, 1, 4, -4, 0][self.rng.usize_below(6)];
                let n = to_boundary as isize + delta;
                let n = if n < 1 { 1 } else { n as usize };
                if self.rng.chance(1, 4) {
                    want
                } else {
                    n.min(want)
                }
            }
        };
        let n = n.clamp(1, want);
        if n < want {
            self.short_transfers += 1;
        }
        n
    }
}

/// A change of stored bytes (media fault): xor `mask` into the byte at `offset`, or overwrite.
#[derive(Clone, Debug, PartialEq, Serialize, Deserialize)]
pub enum Patch {
    Xor { offset: u64, mask: u8 },
    Set { offset: u64, bytes: Vec<u8> },
    Truncate { len: u64 },
    Extend { bytes: Vec<u8> },
    /// copy page `from` over page `to` (misdirected / stale write), page size 1024
    CopyPage { from: u64, to: u64 },
}

impl Patch {
    pub fn apply(&self, data: &mut Vec<u8>) {
        match self {
            Patch::Xor { offset, mask } => {
                if let Some(b) = data.get_mut(*offset as usize) {
                    *b ^= *mask;
                }
            }
            Patch::Set { offset, bytes } => {
                let off = *offset as usize;
                for (i, b) in bytes.iter().enumerate() {
                    if let Some(d) = data.get_mut(off + i) {
                        *d = *b;
                    }
                }
            }
            Patch::Truncate { len } => {
                if (*len as usize) < data.len() {
                    data.truncate(*len as usize)
                }
            }
            Patch::Extend { bytes } => data.extend_from_slice(bytes),
            Patch::CopyPage { from, to } => {
                let (f, t) = ((*from * 1024) as usize, (*to * 1024) as usize);
                if f + 1024 <= data.len() && t + 1024 <= data.len() {
                    let page: Vec<u8> = data[f..f + 1024].to_vec();
                    data[t..t + 1024].copy_from_slice(&page);
                }
            }
        }
    }
}

#[derive(Clone, Debug, PartialEq, Serialize, Deserialize)]
pub enum FaultKind {
    /// The operation fails with `ErrorKind::Other`, nothing moves.
    Error,
    /// The operation moves at most `bytes` (< requested) bytes; the next transfer on that device fails.
    ShortThenError { bytes: u32 },
    /// `ErrorKind::Interrupted`, nothing moves (read/write only).
    Interrupted,
    /// A write returns `Ok(0)` (write only).
    WriteZero,
    /// The device is full from this write on: nothing beyond the current size can be written.
    NoSpace,
    /// Stored bytes change right before this operation is served.
    Mutate(Vec<Patch>),
    /// An error of another kind than `Other`, nothing moves: 0 = `TimedOut`, 1 = `WouldBlock`,
    /// 2 = `UnexpectedEof`, 3 = `InvalidData`, 4 = `BrokenPipe`, else `NotFound`.
    Transient { kind: u8 },
}

impl FaultKind {
    pub fn name(&self) -> &'static str {
        match self {
            FaultKind::Error => "error",
            FaultKind::ShortThenError { .. } => "short_then_error",
            FaultKind::Interrupted => "eintr",
            FaultKind::WriteZero => "write_zero",
            FaultKind::NoSpace => "enospc",
            FaultKind::Mutate(_) => "mutate",
            FaultKind::Transient { kind: 0 } => "timed_out",
            FaultKind::Transient { kind: 1 } => "would_block",
            FaultKind::Transient { kind: 2 } => "unexpected_eof",
            FaultKind::Transient { kind: 3 } => "invalid_data",
            FaultKind::Transient { kind: 4 } => "broken_pipe",
            FaultKind::Transient { .. } => "not_found",
        }
    }
    pub fn applies_to(&self, op: OpKind) -> bool {
        match self {
            FaultKind::Error => true,
            FaultKind::ShortThenError { .. } => matches!(op, OpKind::Read | OpKind::Write),
            // EINTR may hit any operation kind (C15, and since round 10 C16)
            FaultKind::Interrupted => true,
            FaultKind::WriteZero | FaultKind::NoSpace => op == OpKind::Write,
            FaultKind::Mutate(_) => true,
            FaultKind::Transient { .. } => true,
        }
    }
}

/// One injected fault: fires at global operation number `at`.
#[derive(Clone, Debug, PartialEq, Serialize, Deserialize)]
pub struct Fault {
    pub at: u64,
    pub kind: FaultKind,
}

#[derive(Clone, Debug)]
pub struct DevOp {
    pub no: u64,
    pub dev: u8,
    pub kind: OpKind,
    /// position before the operation (devices), or stream position (pipes)
    pub offset: u64,
    pub want: u64,
    pub moved: u64,
    pub ok: bool,
    /// 0 no error, 1 hard error, 2 interrupted, 3 write returned Ok(0)
    pub err: u8,
    /// payload of a write (only when write recording is on)
    pub data: Option<Vec<u8>>,
}

#[derive(Clone, Debug)]
pub struct Fired {
    pub no: u64,
    pub dev: u8,
    pub op: OpKind,
    pub name: &'static str,
}

#[derive(Default, Clone, Debug)]
pub struct DevStats {
    pub ops: [u64; 4],
    pub bytes_read: u64,
    pub bytes_written: u64,
    pub short_transfers: u64,
}

/// Shared per-run simulator context: clock, fault plan, operation log.
pub struct SimCtx {
    pub op_no: u64,
    pub faults: Vec<Fault>,
    pub fired: Vec<Fired>,
    pub log: Vec<DevOp>,
    pub record_ops: bool,
    pub record_writes: bool,
    pub stats: DevStats,
    /// device whose next transfer must fail (second half of ShortThenError)
    pending_error: Option<u8>,
    /// devices that are full: (dev, capacity)
    full: Vec<(u8, u64)>,
}

pub type Ctx = Rc<RefCell<SimCtx>>;

pub fn new_ctx(faults: Vec<Fault>) -> Ctx {
    Rc::new(RefCell::new(SimCtx {
        op_no: 0,
        faults,
        fired: Vec::new(),
        log: Vec::new(),
        record_ops: false,
        record_writes: false,
        stats: DevStats::default(),
        pending_error: None,
        full: Vec::new(),
    }))
}

enum Pre {
    Go { limit: Option<usize> },
    Fail(io::Error),
    Zero,
}

fn injected(kind: ErrorKind, what: &str) -> io::Error {
    io::Error::new(kind, format!("simdisk: injected {what}"))
}

impl SimCtx {
    /// Decide the fate of one operation. Returns (op number, decision, patches to apply first).
    fn begin(&mut self, dev: u8, op: OpKind, cur_len: u64) -> (u64, Pre, Vec<Patch>) {
        let no = self.op_no;
        self.op_no += 1;
        self.stats.ops[op.idx()] += 1;
        let mut patches = Vec::new();
        let mut decision = Pre::Go { limit: None };
        if let Some(d) = self.pending_error {
            if d == dev && matches!(op, OpKind::Read | OpKind::Write) {
                self.pending_error = None;
                self.fired.push(Fired {
                    no,
                    dev,
                    op,
                    name: "short_then_error/error",
                });
                return (no, Pre::Fail(injected(ErrorKind::Other, "error after short transfer")), patches);
            }
        }
        let mut i = 0;
        while i < self.faults.len() {
            if self.faults[i].at == no && self.faults[i].kind.applies_to(op) {
                let f = self.faults[i].kind.clone();
                self.fired.push(Fired {
                    no,
                    dev,
                    op,
                    name: f.name(),
                });
                match f {
                    FaultKind::Error => decision = Pre::Fail(injected(ErrorKind::Other, "I/O error")),
                    FaultKind::ShortThenError { bytes } => {
                        self.pending_error = Some(dev);
                        decision = Pre::Go {
                            limit: Some(bytes as usize),
                        };
                    }
                    FaultKind::Interrupted => {
                        decision = Pre::Fail(injected(ErrorKind::Interrupted, "EINTR"))
                    }
                    FaultKind::WriteZero => decision = Pre::Zero,
                    FaultKind::NoSpace => {
                        if !self.full.iter().any(|(d, _)| *d == dev) {
                            self.full.push((dev, cur_len));
                        }
                    }
                    FaultKind::Mutate(p) => patches.extend(p),
                    FaultKind::Transient { kind } => {
                        let k = match kind {
                            0 => ErrorKind::TimedOut,
                            1 => ErrorKind::WouldBlock,
                            2 => ErrorKind::UnexpectedEof,
                            3 => ErrorKind::InvalidData,
                            4 => ErrorKind::BrokenPipe,
                            _ => ErrorKind::NotFound,
                        };
                        decision = Pre::Fail(injected(k, "error of a drawn kind"))
                    }
                }
            }
            i += 1;
        }
        (no, decision, patches)
    }

    fn capacity(&self, dev: u8) -> Option<u64> {
        self.full.iter().find(|(d, _)| *d == dev).map(|(_, c)| *c)
    }

    fn log_op(&mut self, op: DevOp) {
        if self.record_ops {
            self.log.push(op);
        }
    }

    pub fn fired_count(&self, name: &str) -> usize {
        self.fired.iter().filter(|f| f.name == name).count()
    }
}

pub struct DiskState {
    pub data: Vec<u8>,
    pub pos: u64,
    pub chunker: Chunker,
    pub dirty_since_flush: bool,
    pub flushes: u64,
}

/// Simulated block device with `std::fs::File` semantics. Cloning yields another handle to the
/// same device (the library takes ownership of the handle it is given).
#[derive(Clone)]
pub struct SimDisk {
    pub ctx: Ctx,
    pub st: Rc<RefCell<DiskState>>,
    pub dev: u8,
}

impl SimDisk {
    pub fn new(ctx: &Ctx, dev: u8, data: Vec<u8>, chunk: &Chunk) -> Self {
        SimDisk {
            ctx: ctx.clone(),
            st: Rc::new(RefCell::new(DiskState {
                data,
                pos: 0,
                chunker: Chunker::new(chunk),
                dirty_since_flush: false,
                flushes: 0,
            })),
            dev,
        }
    }

    pub fn image(&self) -> Vec<u8> {
        self.st.borrow().data.clone()
    }

    pub fn len(&self) -> u64 {
        self.st.borrow().data.len() as u64
    }

    pub fn dirty(&self) -> bool {
        self.st.borrow().dirty_since_flush
    }

    pub fn patch(&self, p: &Patch) {
        p.apply(&mut self.st.borrow_mut().data);
    }

    pub fn short_transfers(&self) -> u64 {
        self.st.borrow().chunker.short_transfers
    }
}

impl Read for SimDisk {
    fn read(&mut self, buf: &mut [u8]) -> io::Result<usize> {
        let mut st = self.st.borrow_mut();
        let mut ctx = self.ctx.borrow_mut();
        let (no, pre, patches) = ctx.begin(self.dev, OpKind::Read, st.data.len() as u64);
        for p in &patches {
            p.apply(&mut st.data);
        }
        let pos = st.pos;
        let mut op = DevOp {
            no,
            dev: self.dev,
            kind: OpKind::Read,
            offset: pos,
            want: buf.len() as u64,
            moved: 0,
            ok: true,
            err: 0,
            data: None,
        };
        let limit = match pre {
            Pre::Fail(e) => {
                op.ok = false;
                op.err = if e.kind() == ErrorKind::Interrupted { 2 } else { 1 };
                ctx.log_op(op);
                return Err(e);
            }
            Pre::Zero => None,
            Pre::Go { limit } => limit,
        };
        let len = st.data.len() as u64;
        let avail = len.saturating_sub(pos) as usize;
        let want = buf.len().min(avail);
        let n = if want == 0 {
            0
        } else {
            let mut n = st.chunker.next(want, pos);
            if let Some(l) = limit {
                // a "short then error" transfer always moves fewer bytes than requested
                n = n.min(l.max(1)).min(want.saturating_sub(1).max(1));
            }
            n
        };
        if n > 0 {
            buf[..n].copy_from_slice(&st.data[pos as usize..pos as usize + n]);
        }
        st.pos += n as u64;
        ctx.stats.bytes_read += n as u64;
        op.moved = n as u64;
        ctx.log_op(op);
        Ok(n)
    }
}

impl Write for SimDisk {
    fn write(&mut self, buf: &[u8]) -> io::Result<usize> {
        let mut st = self.st.borrow_mut();
        let mut ctx = self.ctx.borrow_mut();
        let (no, pre, patches) = ctx.begin(self.dev, OpKind::Write, st.data.len() as u64);
        for p in &patches {
            p.apply(&mut st.data);
        }
        let pos = st.pos;
        let mut op = DevOp {
            no,
            dev: self.dev,
            kind: OpKind::Write,
            offset: pos,
            want: buf.len() as u64,
            moved: 0,
            ok: true,
            err: 0,
            data: None,
        };
        let limit = match pre {
            Pre::Fail(e) => {
                op.ok = false;
                op.err = if e.kind() == ErrorKind::Interrupted { 2 } else { 1 };
                ctx.log_op(op);
                return Err(e);
            }
            Pre::Zero => {
                op.err = 3;
                ctx.log_op(op);
                return Ok(0);
            }
            Pre::Go { limit } => limit,
        };
        if buf.is_empty() {
            ctx.log_op(op);
            return Ok(0);
        }
        let mut want = buf.len();
        if let Some(cap) = ctx.capacity(self.dev) {
            let room = cap.saturating_sub(pos) as usize;
            if room == 0 {
                op.ok = false;
                op.err = 1;
                ctx.log_op(op);
                return Err(injected(ErrorKind::Other, "no space left on device"));
            }
            want = want.min(room);
        }
        let mut n = st.chunker.next(want, pos);
        if let Some(l) = limit {
            n = n.min(l.max(1)).min(buf.len().saturating_sub(1).max(1));
        }
        let end = pos as usize + n;
        if st.data.len() < pos as usize {
            st.data.resize(pos as usize, 0);
        }
        if st.data.len() < end {
            st.data.resize(end, 0);
        }
        st.data[pos as usize..end].copy_from_slice(&buf[..n]);
        st.pos += n as u64;
        st.dirty_since_flush = true;
        ctx.stats.bytes_written += n as u64;
        op.moved = n as u64;
        if ctx.record_writes {
            op.data = Some(buf[..n].to_vec());
        }
        ctx.log_op(op);
        Ok(n)
    }

    fn flush(&mut self) -> io::Result<()> {
        let mut st = self.st.borrow_mut();
        let mut ctx = self.ctx.borrow_mut();
        let (no, pre, patches) = ctx.begin(self.dev, OpKind::Flush, st.data.len() as u64);
        for p in &patches {
            p.apply(&mut st.data);
        }
        let mut op = DevOp {
            no,
            dev: self.dev,
            kind: OpKind::Flush,
            offset: st.pos,
            want: 0,
            moved: 0,
            ok: true,
            err: 0,
            data: None,
        };
        if let Pre::Fail(e) = pre {
            op.ok = false;
            op.err = if e.kind() == ErrorKind::Interrupted { 2 } else { 1 };
            ctx.log_op(op);
            return Err(e);
        }
        st.dirty_since_flush = false;
        st.flushes += 1;
        ctx.log_op(op);
        Ok(())
    }
}

impl Seek for SimDisk {
    fn seek(&mut self, to: SeekFrom) -> io::Result<u64> {
        let mut st = self.st.borrow_mut();
        let mut ctx = self.ctx.borrow_mut();
        let (no, pre, patches) = ctx.begin(self.dev, OpKind::Seek, st.data.len() as u64);
        for p in &patches {
            p.apply(&mut st.data);
        }
        let mut op = DevOp {
            no,
            dev: self.dev,
            kind: OpKind::Seek,
            offset: st.pos,
            want: 0,
            moved: 0,
            ok: true,
            err: 0,
            data: None,
        };
        if let Pre::Fail(e) = pre {
            op.ok = false;
            op.err = if e.kind() == ErrorKind::Interrupted { 2 } else { 1 };
            ctx.log_op(op);
            return Err(e);
        }
        let new = match to {
            SeekFrom::Start(n) => n as i128,
            SeekFrom::End(d) => st.data.len() as i128 + d as i128,
            SeekFrom::Current(d) => st.pos as i128 + d as i128,
        };
        if new < 0 || new > u64::MAX as i128 {
            op.ok = false;
            op.err = 1;
            ctx.log_op(op);
            return Err(io::Error::new(
                ErrorKind::InvalidInput,
                "invalid seek to a negative or overflowing position",
            ));
        }
        st.pos = new as u64;
        op.moved = new as u64;
        ctx.log_op(op);
        Ok(st.pos)
    }
}

/// One-directional source pipe (blob / image / mask data handed to the writer).
pub struct PipeSrc {
    ctx: Ctx,
    dev: u8,
    data: Vec<u8>,
    pos: usize,
    chunker: Chunker,
}

impl PipeSrc {
    pub fn new(ctx: &Ctx, dev: u8, data: Vec<u8>, chunk: &Chunk) -> Self {
        PipeSrc {
            ctx: ctx.clone(),
            dev,
            data,
            pos: 0,
            chunker: Chunker::new(chunk),
        }
    }
}

impl Read for PipeSrc {
    fn read(&mut self, buf: &mut [u8]) -> io::Result<usize> {
        let mut ctx = self.ctx.borrow_mut();
        let (no, pre, _patches) = ctx.begin(self.dev, OpKind::Read, self.data.len() as u64);
        let mut op = DevOp {
            no,
            dev: self.dev,
            kind: OpKind::Read,
            offset: self.pos as u64,
            want: buf.len() as u64,
            moved: 0,
            ok: true,
            err: 0,
            data: None,
        };
        let limit = match pre {
            Pre::Fail(e) => {
                op.ok = false;
                op.err = if e.kind() == ErrorKind::Interrupted { 2 } else { 1 };
                ctx.log_op(op);
                return Err(e);
            }
            Pre::Zero => None,
            Pre::Go { limit } => limit,
        };
        let want = buf.len().min(self.data.len() - self.pos);
        let n = if want == 0 {
            0
        } else {
            let mut n = self.chunker.next(want, self.pos as u64);
            if let Some(l) = limit {
                n = n.min(l.max(1)).min(want.saturating_sub(1).max(1));
            }
            n
        };
        buf[..n].copy_from_slice(&self.data[self.pos..self.pos + n]);
        self.pos += n;
        op.moved = n as u64;
        ctx.log_op(op);
        Ok(n)
    }
}

/// One-directional sink pipe (destination of `E57Reader::blob`).
pub struct PipeSink {
    ctx: Ctx,
    dev: u8,
    pub data: Vec<u8>,
    chunker: Chunker,
}

impl PipeSink {
    pub fn new(ctx: &Ctx, dev: u8, chunk: &Chunk) -> Self {
        PipeSink {
            ctx: ctx.clone(),
            dev,
            data: Vec::new(),
            chunker: Chunker::new(chunk),
        }
    }
}

impl Write for PipeSink {
    fn write(&mut self, buf: &[u8]) -> io::Result<usize> {
        let mut ctx = self.ctx.borrow_mut();
        let (no, pre, _patches) = ctx.begin(self.dev, OpKind::Write, self.data.len() as u64);
        let mut op = DevOp {
            no,
            dev: self.dev,
            kind: OpKind::Write,
            offset: self.data.len() as u64,
            want: buf.len() as u64,
            moved: 0,
            ok: true,
            err: 0,
            data: None,
        };
        let limit = match pre {
            Pre::Fail(e) => {
                op.ok = false;
                op.err = if e.kind() == ErrorKind::Interrupted { 2 } else { 1 };
                ctx.log_op(op);
                return Err(e);
            }
            Pre::Zero => {
                op.err = 3;
                ctx.log_op(op);
                return Ok(0);
            }
            Pre::Go { limit } => limit,
        };
        if buf.is_empty() {
            ctx.log_op(op);
            return Ok(0);
        }
        let mut n = self.chunker.next(buf.len(), self.data.len() as u64);
        if let Some(l) = limit {
            n = n.min(l.max(1)).min(buf.len().saturating_sub(1).max(1));
        }
        self.data.extend_from_slice(&buf[..n]);
        op.moved = n as u64;
        ctx.log_op(op);
        Ok(n)
    }

    fn flush(&mut self) -> io::Result<()> {
        let mut ctx = self.ctx.borrow_mut();
        let (no, pre, _p) = ctx.begin(self.dev, OpKind::Flush, self.data.len() as u64);
        let mut op = DevOp {
            no,
            dev: self.dev,
            kind: OpKind::Flush,
            offset: self.data.len() as u64,
            want: 0,
            moved: 0,
            ok: true,
            err: 0,
            data: None,
        };
        if let Pre::Fail(e) = pre {
            op.ok = false;
            op.err = if e.kind() == ErrorKind::Interrupted { 2 } else { 1 };
            ctx.log_op(op);
            return Err(e);
        }
        ctx.log_op(op);
        Ok(())
    }
}

/// Device ids used in operation logs.
pub const DEV_DISK: u8 = 0;
pub const DEV_DISK2: u8 = 1;
pub const DEV_DISK3: u8 = 2;
pub const DEV_PIPE: u8 = 16;
