//! Counting allocator: thread-local current / peak / call counters for the run on that thread
//! (the library is single-threaded, so a run's allocations all happen on its own thread), with a
//! hard per-thread ceiling after which `alloc` returns null (the process then aborts, which the
//! child-process runner attributes to the run in flight). Used as oracle only, never as a fault.

use std::alloc::{GlobalAlloc, Layout, System};
use std::cell::Cell;

pub struct Counting;

thread_local! {
    static CURRENT: Cell<usize> = const { Cell::new(0) };
    static PEAK: Cell<usize> = const { Cell::new(0) };
    static CALLS: Cell<u64> = const { Cell::new(0) };
    static CEILING: Cell<usize> = const { Cell::new(usize::MAX) };
}

unsafe impl GlobalAlloc for Counting {
    unsafe fn alloc(&self, layout: Layout) -> *mut u8 {
        let ok = CURRENT
            .try_with(|c| {
                let now = c.get().saturating_add(layout.size());
                if now > CEILING.with(|x| x.get()) {
                    return false;
                }
                c.set(now);
                PEAK.with(|p| {
                    if now > p.get() {
                        p.set(now)
                    }
                });
                CALLS.with(|n| n.set(n.get() + 1));
                true
            })
            .unwrap_or(true);
        if !ok {
            return std::ptr::null_mut();
        }
        System.alloc(layout)
    }
    unsafe fn dealloc(&self, ptr: *mut u8, layout: Layout) {
        let _ = CURRENT.try_with(|c| c.set(c.get().saturating_sub(layout.size())));
        System.dealloc(ptr, layout)
    }
    unsafe fn realloc(&self, ptr: *mut u8, layout: Layout, new_size: usize) -> *mut u8 {
        let ok = CURRENT
            .try_with(|c| {
                let now = c.get().saturating_sub(layout.size()).saturating_add(new_size);
                if new_size > layout.size() && now > CEILING.with(|x| x.get()) {
                    return false;
                }
                c.set(now);
                PEAK.with(|p| {
                    if now > p.get() {
                        p.set(now)
                    }
                });
                CALLS.with(|n| n.set(n.get() + 1));
                true
            })
            .unwrap_or(true);
        if !ok {
            return std::ptr::null_mut();
        }
        System.realloc(ptr, layout, new_size)
    }
}

/// Start measuring: returns the baseline (bytes currently allocated on this thread).
pub fn begin() -> (usize, u64) {
    let cur = CURRENT.with(|c| c.get());
    PEAK.with(|p| p.set(cur));
    (cur, CALLS.with(|n| n.get()))
}

/// (peak bytes above the baseline, allocation calls) since `begin`.
pub fn end(base: (usize, u64)) -> (usize, u64) {
    let peak = PEAK.with(|p| p.get());
    (peak.saturating_sub(base.0), CALLS.with(|n| n.get()) - base.1)
}

pub fn set_ceiling(bytes: Option<usize>) {
    let cur = CURRENT.with(|c| c.get());
    CEILING.with(|c| c.set(bytes.map(|b| cur.saturating_add(b)).unwrap_or(usize::MAX)));
}
