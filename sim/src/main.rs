//! e57sim – deterministic simulation with fault injection for cry-inc/e57.
//!
//! Usage: e57sim <PROP> [quick|thorough] [--seed N] [--workers N] [--replay FILE]
//!        e57sim --child <PROP> --tier T --seed N --from A --to B   (internal)

mod adapter;
mod alloc;
mod corrupt;
mod gen;
mod history;
mod model;
mod program;
mod props;
mod refcodec;
mod rng;
mod runner;
mod simdisk;
mod view;

use runner::*;

#[global_allocator]
static GLOBAL: alloc::Counting = alloc::Counting;
use std::path::PathBuf;

fn dispatch<P: Prop>(p: &P, mode: &Mode, opts: &Options) -> i32 {
    match mode {
        Mode::Batch => batch_main(p, opts),
        Mode::Replay(path) => replay_main(p, path),
        Mode::Child(from, to) => child_main(p, opts, *from, *to),
    }
}

enum Mode {
    Batch,
    Replay(PathBuf),
    Child(u64, u64),
}

fn main() {
    install_panic_hook();
    let args: Vec<String> = std::env::args().skip(1).collect();
    let mut prop: Option<String> = None;
    let mut tier = match std::env::var("VERIF_TIER").ok().as_deref() {
        Some("thorough") => Tier::Thorough,
        _ => Tier::Quick,
    };
    let mut seed: u64 = std::env::var("VERIF_SEED").ok().and_then(|s| s.trim().parse().ok()).unwrap_or(1);
    let mut workers: usize = std::env::var("VERIF_WORKERS").ok().and_then(|s| s.parse().ok()).unwrap_or(16);
    let mut mode = Mode::Batch;
    let mut child = false;
    let (mut from, mut to) = (0u64, 0u64);
    let mut digests_out = None;
    let mut runs_override = None;
    let mut time_override = None;
    let mut no_evidence = false;
    let mut i = 0;
    while i < args.len() {
        let a = &args[i];
        let mut val = || {
            i += 1;
            args.get(i).cloned().unwrap_or_else(|| {
                eprintln!("missing value for option");
                std::process::exit(2)
            })
        };
        match a.as_str() {
            "quick" => tier = Tier::Quick,
            "thorough" => tier = Tier::Thorough,
            "--tier" => tier = if val() == "thorough" { Tier::Thorough } else { Tier::Quick },
            "--seed" => seed = val().parse().unwrap_or(1),
            "--workers" => workers = val().parse().unwrap_or(16),
            "--replay" => mode = Mode::Replay(PathBuf::from(val())),
            "--child" => child = true,
            "--from" => from = val().parse().unwrap_or(0),
            "--to" => to = val().parse().unwrap_or(0),
            "--digests" => digests_out = Some(PathBuf::from(val())),
            "--runs" => runs_override = val().parse().ok(),
            "--time" => time_override = val().parse().ok(),
            "--no-evidence" => no_evidence = true,
            other if prop.is_none() && !other.starts_with('-') => prop = Some(other.to_string()),
            other => {
                eprintln!("unknown argument {other}");
                std::process::exit(2);
            }
        }
        i += 1;
    }
    if child {
        mode = Mode::Child(from, to);
    }
    let verif_dir = std::env::var("VERIF_DIR").map(PathBuf::from).unwrap_or_else(|_| PathBuf::from("/verif"));
    let opts = Options { tier, seed, workers: workers.max(1), verif_dir, digests_out, runs_override, time_override, no_evidence };
    let prop = prop.unwrap_or_else(|| {
        eprintln!("usage: e57sim <PROP> [quick|thorough] [--seed N] [--replay FILE]");
        std::process::exit(2)
    });
    if prop == "golden" {
        match refcodec::print_golden() {
            Ok(()) => std::process::exit(0),
            Err(e) => {
                eprintln!("HARNESS-ERROR {e}");
                std::process::exit(2);
            }
        }
    }
    if prop == "calibrate" {
        match refcodec::calibrate(true) {
            Ok(n) => {
                println!("calibration ok on {n} bundled files");
                std::process::exit(0);
            }
            Err(e) => {
                eprintln!("HARNESS-ERROR {e}");
                std::process::exit(2);
            }
        }
    }
    let code = match prop.as_str() {
        "C01" => dispatch(&props::c01::C01, &mode, &opts),
        "C02" => dispatch(&props::c02::C02, &mode, &opts),
        "C03" => dispatch(&props::c03::C03, &mode, &opts),
        "C05" => dispatch(&props::c05::C05, &mode, &opts),
        "C06" => dispatch(&props::c06::C06, &mode, &opts),
        "C07" => dispatch(&props::c07::C07, &mode, &opts),
        "C08" => dispatch(&props::c08::C08, &mode, &opts),
        "C09" => dispatch(&props::c08::C09, &mode, &opts),
        "C10" => dispatch(&props::c10::C10, &mode, &opts),
        "C11" => dispatch(&props::c11::C11, &mode, &opts),
        "C15" => dispatch(&props::c15::C15, &mode, &opts),
        "C16" => dispatch(&props::c16::C16, &mode, &opts),
        "C17" => dispatch(&props::c17::C17, &mode, &opts),
        "C19" => dispatch(&props::c19::C19, &mode, &opts),
        "C20" => dispatch(&props::c20::C20, &mode, &opts),
        other => {
            eprintln!("unknown property {other}");
            2
        }
    };
    std::process::exit(code);
}
