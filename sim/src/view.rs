//! Reference view (C05): the documented function (raw values, prototype, pose, options) -> point,
//! written from the doc comments of the crate's public API and the property text.

use crate::history::SPoint;
use crate::model::*;

pub struct ViewOpts {
    pub s2c: bool,
    pub c2s: bool,
    pub i2c: bool,
    pub norm_intensity: bool,
    pub norm_color: bool,
    pub pose: bool,
}

impl ViewOpts {
    pub fn from_bits(b: u8) -> Self {
        ViewOpts { s2c: b & 1 != 0, c2s: b & 2 != 0, i2c: b & 4 != 0, norm_intensity: b & 8 != 0, norm_color: b & 16 != 0, pose: b & 32 != 0 }
    }
}

/// What the reference says about one point.
#[derive(Clone, Debug)]
pub struct Expect {
    /// acceptable cartesian outcomes: (state, xyz); more than one where the documentation leaves room
    pub cart: Vec<(u8, [f64; 3])>,
    pub sph: Vec<(u8, [f64; 3])>,
    /// None = absent; Some(None) = present with unchecked (normalised) values; Some(Some(v)) = these values
    pub color: Option<Option<[f32; 3]>>,
    pub intensity: Option<Option<f32>>,
    /// 0 = compare bit-exactly; otherwise absolute tolerance (normalised values, C13's formula)
    pub color_tol: f32,
    pub intensity_tol: f32,
    pub row: i64,
    pub column: i64,
    /// values too extreme for a meaningful numeric comparison: only states are compared
    pub loose: bool,
    /// magnitude of the inputs (coordinates, translation): floor of the comparison scale, so that
    /// an algebraically equivalent evaluation order with cancellation is not an alarm
    pub mag: f64,
}

pub enum ViewError {
    /// a stored invalid-state value lies outside its documented set: the simple iterator may fail
    BadInvalidState,
}

fn idx(proto: &[Rec], i: u8) -> Option<usize> {
    proto.iter().position(|r| r.name == Name::Std(i))
}

fn int_of(v: &Val) -> Option<i64> {
    match v {
        Val::I(i) => Some(*i),
        _ => None,
    }
}

/// The range normalisation works with: the point cloud's limits when both ends are given (as a
/// pair of integers, singles or doubles), otherwise the range of the record's data type. None
/// where nothing is judged: limits of mixed or scaled-integer kind, a degenerate, reversed or
/// non-finite range (C13's corner cases).
fn norm_range(dt: &DType, min: Option<Lim>, max: Option<Lim>) -> Option<(f64, f64)> {
    let (lo, hi) = match (min, max) {
        (Some(Lim::I(a)), Some(Lim::I(b))) => (a as f64, b as f64),
        (Some(Lim::S(a)), Some(Lim::S(b))) => (a.f() as f64, b.f() as f64),
        (Some(Lim::D(a)), Some(Lim::D(b))) => (a.f(), b.f()),
        (Some(_), Some(_)) => return None,
        _ => match dt {
            DType::Int { min, max } => (*min as f64, *max as f64),
            DType::Scaled { min, max, scale, offset } => {
                let a = *min as f64 * scale.f() + offset.f();
                let b = *max as f64 * scale.f() + offset.f();
                (a.min(b), a.max(b))
            }
            DType::Single { min, max } => (min.map(|v| v.f()).unwrap_or(f32::MIN) as f64, max.map(|v| v.f()).unwrap_or(f32::MAX) as f64),
            DType::Double { min, max } => (min.map(|v| v.f()).unwrap_or(f64::MIN), max.map(|v| v.f()).unwrap_or(f64::MAX)),
        },
    };
    let w = hi - lo;
    if !w.is_finite() || !lo.is_finite() || !hi.is_finite() || w <= 0.0 {
        return None;
    }
    Some((lo, hi))
}

/// (value - min) / (max - min) clamped to the unit interval, for a finite stored value
fn normalised(v: f64, range: Option<(f64, f64)>) -> Option<f32> {
    let (lo, hi) = range?;
    if !v.is_finite() {
        return None;
    }
    Some(((v.clamp(lo, hi) - lo) / (hi - lo)) as f32)
}

pub const NORM_TOL: f32 = 2e-6;

fn rotate(q: &[f64; 4], v: [f64; 3]) -> [f64; 3] {
    // rotation matrix of a unit quaternion (w, x, y, z)
    let (w, x, y, z) = (q[0], q[1], q[2], q[3]);
    let m = [
        [w * w + x * x - y * y - z * z, 2.0 * (x * y - w * z), 2.0 * (x * z + w * y)],
        [2.0 * (x * y + w * z), w * w - x * x + y * y - z * z, 2.0 * (y * z - w * x)],
        [2.0 * (x * z - w * y), 2.0 * (y * z + w * x), w * w - x * x - y * y + z * z],
    ];
    [
        m[0][0] * v[0] + m[0][1] * v[1] + m[0][2] * v[2],
        m[1][0] * v[0] + m[1][1] * v[1] + m[1][2] * v[2],
        m[2][0] * v[0] + m[2][1] * v[1] + m[2][2] * v[2],
    ]
}

pub fn view(pc: &PcRead, p: &Point, o: &ViewOpts) -> Result<Expect, ViewError> {
    use std_name::*;
    let proto = &pc.proto;
    let real = |i: usize| p[i].real(&proto[i].dt);
    let mut loose = false;
    let mut color_tol = 0.0f32;
    let mut intensity_tol = 0.0f32;
    // --- Cartesian
    let cart_idx = match (idx(proto, CX), idx(proto, CY), idx(proto, CZ)) {
        (Some(a), Some(b), Some(c)) => Some((a, b, c)),
        _ => None,
    };
    let cart_state = match idx(proto, CINV) {
        Some(i) => int_of(&p[i]).ok_or(ViewError::BadInvalidState)?,
        None => {
            if cart_idx.is_some() {
                0
            } else {
                2
            }
        }
    };
    let mut cart: (u8, [f64; 3]) = match cart_idx {
        Some((a, b, c)) => match cart_state {
            0 => (0, [real(a), real(b), real(c)]),
            1 => (1, [real(a), real(b), real(c)]),
            2 => (2, [0.0; 3]),
            _ => return Err(ViewError::BadInvalidState),
        },
        None => (2, [0.0; 3]),
    };
    // --- spherical
    let sph_idx = match (idx(proto, SR), idx(proto, SA), idx(proto, SE)) {
        (Some(a), Some(b), Some(c)) => Some((a, b, c)),
        _ => None,
    };
    let sph_state = match idx(proto, SINV) {
        Some(i) => int_of(&p[i]).ok_or(ViewError::BadInvalidState)?,
        None => {
            if sph_idx.is_some() {
                0
            } else {
                2
            }
        }
    };
    let mut sph: (u8, [f64; 3]) = match sph_idx {
        Some((r, a, e)) => match sph_state {
            0 => (0, [real(r), real(a), real(e)]),
            1 => (1, [0.0, real(a), real(e)]),
            2 => (2, [0.0; 3]),
            _ => return Err(ViewError::BadInvalidState),
        },
        None => (2, [0.0; 3]),
    };
    // --- colour
    let col_idx = match (idx(proto, RED), idx(proto, GREEN), idx(proto, BLUE)) {
        (Some(a), Some(b), Some(c)) => Some((a, b, c)),
        _ => None,
    };
    let col_state = match idx(proto, COLINV) {
        Some(i) => int_of(&p[i]).ok_or(ViewError::BadInvalidState)?,
        None => {
            if col_idx.is_some() {
                0
            } else {
                1
            }
        }
    };
    let mut color: Option<Option<[f32; 3]>> = match col_idx {
        Some((a, b, c)) => match col_state {
            0 => {
                if o.norm_color {
                    let lim = |k: usize| pc.meta.color_limits.as_ref().and_then(|l| l.0[k]);
                    let n = [
                        normalised(real(a), norm_range(&proto[a].dt, lim(0), lim(1))),
                        normalised(real(b), norm_range(&proto[b].dt, lim(2), lim(3))),
                        normalised(real(c), norm_range(&proto[c].dt, lim(4), lim(5))),
                    ];
                    match n {
                        [Some(x), Some(y), Some(z)] => {
                            color_tol = NORM_TOL;
                            Some(Some([x, y, z]))
                        }
                        _ => Some(None),
                    }
                } else {
                    Some(Some([real(a) as f32, real(b) as f32, real(c) as f32]))
                }
            }
            1 => None,
            _ => return Err(ViewError::BadInvalidState),
        },
        None => None,
    };
    // --- intensity
    let int_idx = idx(proto, INT);
    let int_state = match idx(proto, IINV) {
        Some(i) => int_of(&p[i]).ok_or(ViewError::BadInvalidState)?,
        None => {
            if int_idx.is_some() {
                0
            } else {
                1
            }
        }
    };
    let intensity: Option<Option<f32>> = match int_idx {
        Some(i) => match int_state {
            0 => {
                if o.norm_intensity {
                    let (lo, hi) = match &pc.meta.intensity_limits {
                        Some(l) => (l.min, l.max),
                        None => (None, None),
                    };
                    match normalised(real(i), norm_range(&proto[i].dt, lo, hi)) {
                        Some(v) => {
                            intensity_tol = NORM_TOL;
                            Some(Some(v))
                        }
                        None => Some(None),
                    }
                } else {
                    Some(Some(real(i) as f32))
                }
            }
            1 => None,
            _ => return Err(ViewError::BadInvalidState),
        },
        None => None,
    };
    let row = idx(proto, ROW).and_then(|i| int_of(&p[i])).unwrap_or(-1);
    let column = idx(proto, COL).and_then(|i| int_of(&p[i])).unwrap_or(-1);

    let extreme = |v: &[f64; 3]| v.iter().any(|x| !x.is_finite() || x.abs() > 1e100);
    // --- spherical -> Cartesian when no valid Cartesian value exists
    let mut cart_alt: Vec<(u8, [f64; 3])> = Vec::new();
    if o.s2c && cart.0 != 0 {
        if sph.0 == 0 {
            let [r, az, el] = sph.1;
            if extreme(&sph.1) {
                loose = true;
            }
            cart = (0, [r * el.cos() * az.cos(), r * el.cos() * az.sin(), r * el.sin()]);
        } else if cart.0 == 2 && sph.0 == 1 {
            // a direction-only spherical value: the documentation leaves open whether it becomes a
            // Cartesian direction (unit vector) or the Cartesian coordinate stays invalid
            let [_, az, el] = sph.1;
            if extreme(&[0.0, az, el]) {
                loose = true;
            }
            cart_alt.push((1, [el.cos() * az.cos(), el.cos() * az.sin(), el.sin()]));
        }
    }
    // --- Cartesian -> spherical when no valid spherical value exists
    let mut sph_alt: Vec<(u8, [f64; 3])> = Vec::new();
    if o.c2s && sph.0 != 0 {
        // the conversion works on what the Cartesian value is at this point (after s2c, before pose)
        let mut sources: Vec<(u8, [f64; 3])> = vec![cart];
        sources.extend(cart_alt.iter().cloned());
        let mut outs: Vec<(u8, [f64; 3])> = Vec::new();
        for (state, [x, y, z]) in sources {
            if extreme(&[x, y, z]) {
                loose = true;
            }
            let r = (x * x + y * y + z * z).sqrt();
            if state == 0 {
                outs.push((0, [r, y.atan2(x), (z / r).asin()]));
            } else if state == 1 && sph.0 == 2 {
                outs.push((1, [0.0, y.atan2(x), (z / r).asin()]));
                outs.push(sph);
            } else {
                outs.push(sph);
            }
        }
        sph = outs[0];
        sph_alt = outs[1..].to_vec();
    }
    // --- intensity -> grey when no colour exists
    if o.i2c && color.is_none() {
        if let Some(i) = intensity {
            color = Some(i.map(|v| [v, v, v]));
            color_tol = intensity_tol;
        }
    }
    // --- pose on valid Cartesian coordinates: rotation then translation
    if o.pose && cart.0 == 0 {
        // the crate multiplies by the identity when no pose is given: a non-finite component then
        // spreads to the others (0 * inf). Not judged: only the state is compared for such points.
        if cart.1.iter().any(|v| !v.is_finite()) {
            loose = true;
        }
        if let Some(t) = &pc.meta.transform {
            let q = [t.rot[0].f(), t.rot[1].f(), t.rot[2].f(), t.rot[3].f()];
            let tr = [t.tr[0].f(), t.tr[1].f(), t.tr[2].f()];
            if extreme(&cart.1) || extreme(&tr) || q.iter().any(|x| !x.is_finite()) {
                loose = true;
            }
            let rv = rotate(&q, cart.1);
            cart = (0, [rv[0] + tr[0], rv[1] + tr[1], rv[2] + tr[2]]);
        }
    }
    let mut mag = 0.0f64;
    if let Some((a, b, c)) = cart_idx {
        for i in [a, b, c] {
            mag = mag.max(real(i).abs());
        }
    }
    if let Some((r, _, _)) = sph_idx {
        mag = mag.max(real(r).abs());
    }
    if let Some(t) = &pc.meta.transform {
        for v in &t.tr {
            mag = mag.max(v.f().abs());
        }
    }
    if !mag.is_finite() {
        mag = 0.0;
    }
    let mut carts = vec![cart];
    carts.extend(cart_alt);
    let mut sphs = vec![sph];
    sphs.extend(sph_alt);
    Ok(Expect { cart: carts, sph: sphs, color, intensity, color_tol, intensity_tol, row, column, loose, mag })
}

fn close(a: f64, b: f64, scale: f64) -> bool {
    if a.to_bits() == b.to_bits() || (a.is_nan() && b.is_nan()) {
        return true;
    }
    if !a.is_finite() || !b.is_finite() {
        return a == b;
    }
    let tol = 1e-11 * scale.max(a.abs()).max(b.abs()) + f64::MIN_POSITIVE * 16.0;
    (a - b).abs() <= tol
}

fn coord_ok(got: (u8, [f64; 3]), wants: &[(u8, [f64; 3])], loose: bool, direction_skips_first: bool, mag: f64) -> bool {
    wants.iter().any(|w| {
        if got.0 != w.0 {
            return false;
        }
        if got.0 == 2 || loose {
            return true;
        }
        let scale = w.1.iter().fold(mag, |m, v| m.max(v.abs()));
        let from = if direction_skips_first && got.0 == 1 { 1 } else { 0 };
        (from..3).all(|k| close(got.1[k], w.1[k], scale))
    })
}

/// None if `got` is an acceptable rendering of the expectation, else what differs.
pub fn check(got: &SPoint, want: &Expect) -> Option<String> {
    if !coord_ok((got.cart_state, got.cart), &want.cart, want.loose, false, want.mag) {
        return Some(format!("cartesian: got state {} {:?}, expected one of {:?}", got.cart_state, got.cart, want.cart));
    }
    if !coord_ok((got.sph_state, got.sph), &want.sph, want.loose, true, 0.0) {
        return Some(format!("spherical: got state {} {:?}, expected one of {:?}", got.sph_state, got.sph, want.sph));
    }
    match (&got.color, &want.color) {
        (None, None) => {}
        (Some(_), Some(None)) => {}
        (Some(g), Some(Some(w))) => {
            for k in 0..3 {
                if !(g[k].to_bits() == w[k].to_bits() || (g[k].is_nan() && w[k].is_nan()) || (want.color_tol > 0.0 && (g[k] - w[k]).abs() <= want.color_tol)) {
                    return Some(format!("colour: got {g:?}, expected {w:?}"));
                }
            }
        }
        (g, w) => return Some(format!("colour presence: got {g:?}, expected {w:?}")),
    }
    match (&got.intensity, &want.intensity) {
        (None, None) => {}
        (Some(_), Some(None)) => {}
        (Some(g), Some(Some(w))) => {
            if !(g.to_bits() == w.to_bits() || (g.is_nan() && w.is_nan()) || (want.intensity_tol > 0.0 && (g - w).abs() <= want.intensity_tol)) {
                return Some(format!("intensity: got {g:?}, expected {w:?}"));
            }
        }
        (g, w) => return Some(format!("intensity presence: got {g:?}, expected {w:?}")),
    }
    if got.row != want.row || got.column != want.column {
        return Some(format!("row/column: got {}/{}, expected {}/{}", got.row, got.column, want.row, want.column));
    }
    None
}
