//! Reader histories: sequences of read operations on one open `E57Reader<SimDisk>`, with the
//! device-operation range of every call recorded so that injected faults can be attributed to
//! the library call in progress.

use crate::adapter::*;
use crate::model::*;
use crate::rng::{Digest, Rng};
use crate::simdisk::*;
use e57::{Blob, CartesianCoordinate, E57Reader, PointCloud, SphericalCoordinate};
use serde::{Deserialize, Serialize};

#[derive(Clone, Debug, PartialEq, Serialize, Deserialize)]
pub enum ROp {
    Xml,
    Pointclouds,
    Images,
    /// raw iteration of point cloud `pc` (index modulo count), stop after `take` points
    Raw { pc: usize, take: Option<usize> },
    /// simple iteration with option bits: 1 s2c, 2 c2s, 4 i2c, 8 norm intensity, 16 norm colour, 32 pose
    Simple { pc: usize, opts: u8, take: Option<usize> },
    /// blob `which` (index modulo count over standalone + image + mask blobs) into a chunked sink
    Blob { which: usize, sink: Chunk },
}

pub const DEFAULT_OPTS: u8 = 1 | 4 | 8 | 16 | 32;

/// A simple-iterator point with floats as bit patterns (comparison is done by the checks).
#[derive(Clone, Debug, PartialEq)]
pub struct SPoint {
    /// 0 valid, 1 direction, 2 invalid
    pub cart_state: u8,
    pub cart: [f64; 3],
    pub sph_state: u8,
    /// range, azimuth, elevation
    pub sph: [f64; 3],
    pub color: Option<[f32; 3]>,
    pub intensity: Option<f32>,
    pub row: i64,
    pub column: i64,
}

pub fn spoint_from_e57(p: &e57::Point) -> SPoint {
    let (cart_state, cart) = match p.cartesian {
        CartesianCoordinate::Valid { x, y, z } => (0, [x, y, z]),
        CartesianCoordinate::Direction { x, y, z } => (1, [x, y, z]),
        CartesianCoordinate::Invalid => (2, [0.0; 3]),
    };
    let (sph_state, sph) = match p.spherical {
        SphericalCoordinate::Valid { range, azimuth, elevation } => (0, [range, azimuth, elevation]),
        SphericalCoordinate::Direction { azimuth, elevation } => (1, [0.0, azimuth, elevation]),
        SphericalCoordinate::Invalid => (2, [0.0; 3]),
    };
    SPoint {
        cart_state,
        cart,
        sph_state,
        sph,
        color: p.color.as_ref().map(|c| [c.red, c.green, c.blue]),
        intensity: p.intensity,
        row: p.row,
        column: p.column,
    }
}

pub fn spoint_bits_eq(a: &SPoint, b: &SPoint) -> bool {
    let f = |x: &[f64; 3], y: &[f64; 3]| x.iter().zip(y.iter()).all(|(p, q)| p.to_bits() == q.to_bits());
    let g = |x: &Option<[f32; 3]>, y: &Option<[f32; 3]>| match (x, y) {
        (None, None) => true,
        (Some(p), Some(q)) => p.iter().zip(q.iter()).all(|(a, b)| a.to_bits() == b.to_bits()),
        _ => false,
    };
    a.cart_state == b.cart_state
        && a.sph_state == b.sph_state
        && f(&a.cart, &b.cart)
        && f(&a.sph, &b.sph)
        && g(&a.color, &b.color)
        && a.intensity.map(|v| v.to_bits()) == b.intensity.map(|v| v.to_bits())
        && a.row == b.row
        && a.column == b.column
}

#[derive(Clone, Debug, PartialEq)]
pub enum Ending {
    /// iterator returned None
    Done,
    /// stopped by the caller after `take` points
    Taken,
    Failed(String),
}

#[derive(Clone, Debug)]
pub enum OpResult {
    Xml(String),
    Count(usize),
    Raw { opened: Result<(), String>, points: Vec<Point>, end: Ending },
    Simple { opened: Result<(), String>, points: Vec<SPoint>, end: Ending },
    Blob { result: Result<u64, String>, received: Vec<u8> },
    /// the history referred to an item the file does not have
    Skipped,
}

impl OpResult {
    pub fn is_err(&self) -> bool {
        match self {
            OpResult::Raw { opened, end, .. } | OpResult::Simple { opened, end, .. } => {
                opened.is_err() || matches!(end, Ending::Failed(_))
            }
            OpResult::Blob { result, .. } => result.is_err(),
            _ => false,
        }
    }
    pub fn digest(&self, d: &mut Digest) {
        match self {
            OpResult::Xml(s) => {
                d.str(s);
            }
            OpResult::Count(n) => {
                d.u64(*n as u64);
            }
            OpResult::Raw { opened, points, end } => {
                d.u64(opened.is_ok() as u64);
                digest_points(d, points);
                d.u64(match end {
                    Ending::Done => 1,
                    Ending::Taken => 2,
                    Ending::Failed(_) => 3,
                });
            }
            OpResult::Simple { opened, points, end } => {
                d.u64(opened.is_ok() as u64);
                for p in points {
                    d.u64(p.cart_state as u64).u64(p.sph_state as u64);
                    for v in p.cart.iter().chain(p.sph.iter()) {
                        d.u64(v.to_bits());
                    }
                    if let Some(c) = p.color {
                        for v in c {
                            d.u64(v.to_bits() as u64);
                        }
                    }
                    d.u64(p.intensity.map(|v| v.to_bits() as u64).unwrap_or(u64::MAX));
                    d.u64(p.row as u64).u64(p.column as u64);
                }
                d.u64(match end {
                    Ending::Done => 1,
                    Ending::Taken => 2,
                    Ending::Failed(_) => 3,
                });
            }
            OpResult::Blob { result, received } => {
                d.u64(result.as_ref().map(|n| *n).unwrap_or(u64::MAX));
                d.bytes(received);
            }
            OpResult::Skipped => {
                d.u64(77);
            }
        }
    }
    /// Same observable result (errors compared as "is Err" only).
    pub fn same_as(&self, other: &OpResult) -> bool {
        match (self, other) {
            (OpResult::Xml(a), OpResult::Xml(b)) => a == b,
            (OpResult::Count(a), OpResult::Count(b)) => a == b,
            (OpResult::Raw { opened: o1, points: p1, end: e1 }, OpResult::Raw { opened: o2, points: p2, end: e2 }) => {
                o1.is_ok() == o2.is_ok() && p1 == p2 && std::mem::discriminant(e1) == std::mem::discriminant(e2)
            }
            (OpResult::Simple { opened: o1, points: p1, end: e1 }, OpResult::Simple { opened: o2, points: p2, end: e2 }) => {
                o1.is_ok() == o2.is_ok()
                    && p1.len() == p2.len()
                    && p1.iter().zip(p2.iter()).all(|(a, b)| spoint_bits_eq(a, b))
                    && std::mem::discriminant(e1) == std::mem::discriminant(e2)
            }
            (OpResult::Blob { result: r1, received: b1 }, OpResult::Blob { result: r2, received: b2 }) => {
                r1.is_ok() == r2.is_ok() && (r1.is_err() || (r1.as_ref().ok() == r2.as_ref().ok() && b1 == b2))
            }
            (OpResult::Skipped, OpResult::Skipped) => true,
            _ => false,
        }
    }
    /// "self is an error, or equals the reference result" – the relaxed oracle after a fault.
    /// For iterators that failed: what they yielded before failing must be a prefix of the reference.
    pub fn err_or_same(&self, reference: &OpResult) -> bool {
        if !self.is_err() {
            return self.same_as(reference);
        }
        match (self, reference) {
            (OpResult::Raw { points: p1, .. }, OpResult::Raw { points: p2, .. }) => p1.len() <= p2.len() && p1[..] == p2[..p1.len()],
            (OpResult::Simple { points: p1, .. }, OpResult::Simple { points: p2, .. }) => {
                p1.len() <= p2.len() && p1.iter().zip(p2.iter()).all(|(a, b)| spoint_bits_eq(a, b))
            }
            (OpResult::Blob { received: b1, .. }, OpResult::Blob { received: b2, .. }) => b1.len() <= b2.len() && b1[..] == b2[..b1.len()],
            _ => true,
        }
    }
    /// Where the points of two iterations part (index, what each has there), if they do.
    pub fn first_point_difference(&self, other: &OpResult) -> Option<String> {
        match (self, other) {
            (OpResult::Raw { points: a, .. }, OpResult::Raw { points: b, .. }) => {
                let i = a.iter().zip(b.iter()).position(|(x, y)| x != y).or(if a.len() > b.len() { Some(b.len()) } else { None })?;
                Some(format!("point {i}: {:?} instead of {:?}", a.get(i), b.get(i)))
            }
            (OpResult::Simple { points: a, .. }, OpResult::Simple { points: b, .. }) => {
                let i = a.iter().zip(b.iter()).position(|(x, y)| !spoint_bits_eq(x, y)).or(if a.len() > b.len() { Some(b.len()) } else { None })?;
                Some(format!("point {i}: {:?} instead of {:?}", a.get(i), b.get(i)))
            }
            _ => None,
        }
    }
    pub fn brief(&self) -> String {
        match self {
            OpResult::Xml(s) => format!("xml({} bytes)", s.len()),
            OpResult::Count(n) => format!("count({n})"),
            OpResult::Raw { opened, points, end } => format!("raw(open={}, {} points, {:?})", opened.is_ok(), points.len(), end),
            OpResult::Simple { opened, points, end } => format!("simple(open={}, {} points, {:?})", opened.is_ok(), points.len(), end),
            OpResult::Blob { result, received } => format!("blob({:?}, {} bytes received)", result, received.len()),
            OpResult::Skipped => "skipped".into(),
        }
    }
}

#[derive(Clone, Debug)]
pub struct OpRec {
    pub op_from: u64,
    pub op_to: u64,
    pub result: OpResult,
}

/// All blob descriptors reachable from the file's metadata plus the given standalone ones.
pub fn all_blobs<T: std::io::Read + std::io::Seek>(r: &E57Reader<T>, standalone: &[(u64, u64)]) -> Vec<Blob> {
    let mut v: Vec<Blob> = standalone.iter().map(|(o, l)| Blob::new(*o, *l)).collect();
    for img in r.images() {
        let d = img_desc_from_e57(&img);
        for (b, m) in [d.visual_blobs, d.projection_blobs].into_iter().flatten() {
            v.push(b);
            if let Some(m) = m {
                v.push(m);
            }
        }
    }
    v
}

/// How often an iterator is polled again after its first error. What it hands out then is part
/// of the operation's result: the points of an operation that failed must be a prefix of the
/// points of the same operation without the failure.
pub const POLLS_AFTER_ERROR: usize = 3;

thread_local! {
    static POLL_AFTER_ERROR: std::cell::Cell<bool> = const { std::cell::Cell::new(false) };
}

/// Checks whose oracle covers what an iterator does when it is polled again after an error
/// (C07, C16, C17) switch this on for their thread; the others stop at the first error.
pub fn set_poll_after_error(on: bool) {
    POLL_AFTER_ERROR.with(|c| c.set(on));
}

fn polls_allowed() -> usize {
    if POLL_AFTER_ERROR.with(|c| c.get()) {
        POLLS_AFTER_ERROR
    } else {
        0
    }
}

pub fn run_op(r: &mut E57Reader<SimDisk>, ctx: &Ctx, pcs: &[PointCloud], blobs: &[Blob], op: &ROp, sink_dev: u8) -> OpRec {
    let op_from = ctx.borrow().op_no;
    let result = match op {
        ROp::Xml => OpResult::Xml(r.xml().to_string()),
        ROp::Pointclouds => OpResult::Count(r.pointclouds().len()),
        ROp::Images => OpResult::Count(r.images().len()),
        ROp::Raw { pc, take } => {
            if pcs.is_empty() {
                OpResult::Skipped
            } else {
                let pc = &pcs[pc % pcs.len()];
                match r.pointcloud_raw(pc) {
                    Err(e) => OpResult::Raw { opened: Err(e.to_string()), points: vec![], end: Ending::Failed(e.to_string()) },
                    Ok(it) => {
                        let mut points = Vec::new();
                        let mut end = Ending::Done;
                        let mut polls_after_error = 0;
                        for item in it {
                            if let Some(t) = take {
                                if points.len() >= *t {
                                    if polls_after_error == 0 {
                                        end = Ending::Taken;
                                    }
                                    break;
                                }
                            }
                            match item {
                                // a point handed out after an error counts like any other point
                                Ok(v) => points.push(v.iter().map(val_from_e57).collect()),
                                Err(e) => {
                                    if polls_after_error == 0 {
                                        end = Ending::Failed(e.to_string());
                                    }
                                }
                            }
                            if matches!(end, Ending::Failed(_)) {
                                // callers may poll an iterator again after an error
                                polls_after_error += 1;
                                if polls_after_error > polls_allowed() {
                                    break;
                                }
                            }
                        }
                        OpResult::Raw { opened: Ok(()), points, end }
                    }
                }
            }
        }
        ROp::Simple { pc, opts, take } => {
            if pcs.is_empty() {
                OpResult::Skipped
            } else {
                let pc = &pcs[pc % pcs.len()];
                match r.pointcloud_simple(pc) {
                    Err(e) => OpResult::Simple { opened: Err(e.to_string()), points: vec![], end: Ending::Failed(e.to_string()) },
                    Ok(mut it) => {
                        it.spherical_to_cartesian(opts & 1 != 0);
                        it.cartesian_to_spherical(opts & 2 != 0);
                        it.intensity_to_color(opts & 4 != 0);
                        it.normalize_intensity(opts & 8 != 0);
                        it.normalize_color(opts & 16 != 0);
                        it.apply_pose(opts & 32 != 0);
                        let mut points = Vec::new();
                        let mut end = Ending::Done;
                        let mut polls_after_error = 0;
                        for item in it {
                            if let Some(t) = take {
                                if points.len() >= *t {
                                    if polls_after_error == 0 {
                                        end = Ending::Taken;
                                    }
                                    break;
                                }
                            }
                            match item {
                                Ok(p) => points.push(spoint_from_e57(&p)),
                                Err(e) => {
                                    if polls_after_error == 0 {
                                        end = Ending::Failed(e.to_string());
                                    }
                                }
                            }
                            if matches!(end, Ending::Failed(_)) {
                                polls_after_error += 1;
                                if polls_after_error > polls_allowed() {
                                    break;
                                }
                            }
                        }
                        OpResult::Simple { opened: Ok(()), points, end }
                    }
                }
            }
        }
        ROp::Blob { which, sink } => {
            if blobs.is_empty() {
                OpResult::Skipped
            } else {
                let b = &blobs[which % blobs.len()];
                let mut s = PipeSink::new(ctx, sink_dev, sink);
                let result = r.blob(b, &mut s).map_err(|e| e.to_string());
                OpResult::Blob { result, received: s.data }
            }
        }
    };
    OpRec { op_from, op_to: ctx.borrow().op_no, result }
}

pub fn run_history(r: &mut E57Reader<SimDisk>, ctx: &Ctx, standalone: &[(u64, u64)], ops: &[ROp]) -> Vec<OpRec> {
    let pcs = r.pointclouds();
    let blobs = all_blobs(r, standalone);
    ops.iter()
        .enumerate()
        .map(|(i, op)| run_op(r, ctx, &pcs, &blobs, op, DEV_PIPE + 128 + (i % 64) as u8))
        .collect()
}

/// "Read everything" history for a file with the given numbers of point clouds and blobs.
pub fn full_history(n_pcs: usize, n_blobs: usize, simple_too: bool) -> Vec<ROp> {
    let mut ops = vec![ROp::Xml, ROp::Pointclouds, ROp::Images];
    for i in 0..n_pcs {
        ops.push(ROp::Raw { pc: i, take: None });
        if simple_too {
            ops.push(ROp::Simple { pc: i, opts: DEFAULT_OPTS, take: None });
        }
    }
    for i in 0..n_blobs {
        ops.push(ROp::Blob { which: i, sink: Chunk::Full });
    }
    ops
}

pub fn gen_history(r: &mut Rng, len: usize) -> Vec<ROp> {
    let mut ops = Vec::new();
    for _ in 0..len {
        let take = match r.below(4) {
            0 => None,
            1 => Some(r.usize_below(3)),
            2 => Some(1 + r.usize_below(40)),
            _ => None,
        };
        let op = match r.weighted(&[1, 1, 1, 6, 4, 5]) {
            0 => ROp::Xml,
            1 => ROp::Pointclouds,
            2 => ROp::Images,
            3 => ROp::Raw { pc: r.usize_below(8), take },
            4 => ROp::Simple { pc: r.usize_below(8), opts: r.below(64) as u8, take },
            _ => ROp::Blob { which: r.usize_below(16), sink: Chunk::draw(r) },
        };
        ops.push(op);
    }
    ops
}

/// One complete reader session: static functions, open, history.
pub struct ReaderRun {
    pub validate: Option<(u64, u64, Result<u64, String>)>,
    pub raw_xml: Option<(u64, u64, Result<Vec<u8>, String>)>,
    pub open_range: (u64, u64),
    pub open: Result<(), String>,
    pub recs: Vec<OpRec>,
    pub n_pcs: usize,
    pub n_blobs: usize,
}

/// Open `image` on a fresh device (id DEV_DISK2) and run the history. `statics`: also run
/// validate_crc and raw_xml first, each on its own handle of a clone of the image.
pub fn reader_run(image: &[u8], ctx: &Ctx, chunk: &Chunk, standalone: &[(u64, u64)], ops: &[ROp], statics: bool) -> ReaderRun {
    let mut validate = None;
    let mut raw_xml = None;
    if statics {
        let d = SimDisk::new(ctx, DEV_DISK3, image.to_vec(), chunk);
        let from = ctx.borrow().op_no;
        let r = E57Reader::validate_crc(d).map_err(|e| e.to_string());
        validate = Some((from, ctx.borrow().op_no, r));
        let d = SimDisk::new(ctx, DEV_DISK3, image.to_vec(), chunk);
        let from = ctx.borrow().op_no;
        let r = E57Reader::raw_xml(d).map_err(|e| e.to_string());
        raw_xml = Some((from, ctx.borrow().op_no, r));
    }
    let disk = SimDisk::new(ctx, DEV_DISK2, image.to_vec(), chunk);
    let from = ctx.borrow().op_no;
    let opened = E57Reader::new(disk);
    let open_range = (from, ctx.borrow().op_no);
    match opened {
        Err(e) => ReaderRun { validate, raw_xml, open_range, open: Err(e.to_string()), recs: vec![], n_pcs: 0, n_blobs: 0 },
        Ok(mut r) => {
            let n_pcs = r.pointclouds().len();
            let n_blobs = all_blobs(&r, standalone).len();
            let recs = run_history(&mut r, ctx, standalone, ops);
            ReaderRun { validate, raw_xml, open_range, open: Ok(()), recs, n_pcs, n_blobs }
        }
    }
}
