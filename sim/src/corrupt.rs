//! Structure-aware corruption of valid files (C08 / C09): mutations are located with refcodec's
//! map of the pristine file, then the pages are re-sealed (so that mutations reach the parsers)
//! or left unsealed; plus page-level media faults, truncation and extension.

use crate::refcodec::decode::{self, Decoded};
use crate::refcodec::page::{self, to_logical, to_phys, PAGE, PAYLOAD};
use crate::rng::Rng;
use serde::{Deserialize, Serialize};

#[derive(Clone, Debug, PartialEq, Serialize, Deserialize)]
pub enum Mut {
    /// file header field: 0 signature byte, 1 major, 2 minor, 3 phys_length, 4 xml_offset, 5 xml_length, 6 page_size
    Header { field: u8, value: u64 },
    /// replace the nth numeric text node (>123<) of the XML
    XmlNumber { nth: usize, value: String },
    /// replace the value of the nth attribute called `name`
    XmlAttr { name: String, nth: usize, value: String },
    XmlDropAttr { name: String, nth: usize },
    XmlDupAttr { name: String, nth: usize },
    /// nth element called `tag` (with its content): 0 drop, 1 duplicate, 2 move to the end of its parent, 3 empty it
    XmlElem { tag: String, nth: usize, what: u8 },
    /// insert text at: 0 document start, 1 after the XML declaration, 2 before the root end tag, 3 inside the nth prototype
    XmlInsert { at: u8, nth: usize, text: String },
    /// replace the nth occurrence of `from`
    XmlReplace { from: String, to: String, nth: usize },
    /// rewrite every record of the nth prototype to a zero-width integer (same names, same count);
    /// keep_first: leave the first record as it is
    XmlProtoZero { nth: usize, keep_first: bool },
    /// set minimum AND maximum of the nth element that has a minimum attribute (a consistent pair:
    /// a narrow range at an extreme of the integer domain passes "maximum >= minimum" checks)
    XmlRange { nth: usize, min: String, max: String },
    /// compressed vector section header of point cloud `cv`: 0 id, 1 reserved, 2 section_length, 3 data_offset, 4 index_offset
    CvHeader { cv: usize, field: u8, value: u64 },
    /// packet `packet` of point cloud `cv`: 0 type, 1 flags, 2 length field, 3 stream count / entry count, 4 stream length table entry `sub`
    Packet { cv: usize, packet: usize, field: u8, sub: usize, value: u64 },
    /// blob section header: 0 id, 1 length
    BlobHeader { blob: usize, field: u8, value: u64 },
    /// flip `n` pseudo-random bits inside section `cv` payload
    PayloadBits { cv: usize, seed: u64, n: usize },
    /// flip `n` pseudo-random bits anywhere in the logical stream
    AnyBits { seed: u64, n: usize },
    /// overwrite bytes at a logical offset
    Raw { logical: u64, bytes: Vec<u8> },
    /// replace the whole XML text
    XmlWhole { xml: String },
    /// drop the nth element called `tag` and set the numeric content of sibling number `sib`
    /// (another leaf of the same parent) to `value`: "optional element absent, default computed
    /// from a hostile sibling"
    XmlDropAndSibling { tag: String, nth: usize, sib: usize, value: String },
    /// DOCTYPE with nested internal entities behind the XML declaration and a reference to the
    /// outermost entity inside the first string element
    XmlEntityBomb { unit: usize, fan: usize, refs: usize },
    /// overwrite the packets of point cloud `cv` from its first packet on with copies of one tiny
    /// hostile packet: kind 0 = 12-byte data packet (length field 11) whose stream table claims
    /// 65535 bytes for the first stream, 1 = 4-byte ignored packets, 2 = 16-byte index packets
    PacketBomb { cv: usize, kind: u8 },
    /// replace the header of packet `packet` of point cloud `cv` by a well-formed non-data packet
    /// header (kind 0 = index: 16 bytes, reserved bytes zero; kind 2 = ignored: 4 bytes) whose
    /// length field is `length_field`
    PacketCraft { cv: usize, packet: usize, kind: u8, length_field: u16 },
}

#[derive(Clone, Debug, PartialEq, Serialize, Deserialize)]
pub enum Media {
    CopyPage { from: u64, to: u64 },
    /// page content from the pristine image (a lost write when combined with mutations)
    StalePage { page: u64 },
    TruncatePages { keep: u64 },
    TruncateBytes { len: u64 },
    ExtendZeros { bytes: u64 },
    ExtendGarbage { bytes: u64, seed: u64 },
}

#[derive(Clone, Debug, PartialEq, Serialize, Deserialize)]
pub struct Plan {
    pub muts: Vec<Mut>,
    /// recompute every page checksum after the mutations
    pub sealed: bool,
    pub media: Vec<Media>,
}

fn nth_match(hay: &str, needle: &str, nth: usize) -> Option<usize> {
    let v: Vec<usize> = hay.match_indices(needle).map(|(i, _)| i).collect();
    if v.is_empty() {
        None
    } else {
        Some(v[nth % v.len()])
    }
}

/// positions (start, end) of numeric text nodes: '>' digits/sign/dot/e '<'
fn number_nodes(xml: &str) -> Vec<(usize, usize)> {
    let b = xml.as_bytes();
    let mut out = Vec::new();
    let mut i = 0;
    while i < b.len() {
        if b[i] == b'>' {
            let s = i + 1;
            let mut e = s;
            while e < b.len() && (b[e].is_ascii_digit() || matches!(b[e], b'-' | b'+' | b'.' | b'e' | b'E' | b'N' | b'a' | b'i' | b'n' | b'f')) {
                e += 1;
            }
            if e > s && e < b.len() && b[e] == b'<' {
                out.push((s, e));
            }
            i = e.max(i + 1);
        } else {
            i += 1;
        }
    }
    out
}

/// (start of '<tag', end after the matching end tag or '/>')
fn element_span(xml: &str, tag: &str, nth: usize) -> Option<(usize, usize)> {
    let open = format!("<{tag}");
    let starts: Vec<usize> = xml
        .match_indices(&open)
        .map(|(i, _)| i)
        .filter(|i| matches!(xml.as_bytes().get(i + open.len()), Some(b' ') | Some(b'>') | Some(b'/') | Some(b'\n') | Some(b'\t') | Some(b'\r')))
        .collect();
    if starts.is_empty() {
        return None;
    }
    let s = starts[nth % starts.len()];
    let head_end = s + xml[s..].find('>')?;
    if xml.as_bytes()[head_end - 1] == b'/' {
        return Some((s, head_end + 1));
    }
    // matching end tag with nesting of the same name
    let close = format!("</{tag}");
    let mut depth = 1;
    let mut pos = head_end + 1;
    loop {
        let no = xml[pos..].find(&open).map(|i| i + pos);
        let nc = xml[pos..].find(&close).map(|i| i + pos)?;
        match no {
            Some(o) if o < nc => {
                // a nested element of the same name (unless self-closing)
                let he = o + xml[o..].find('>')?;
                if xml.as_bytes()[he - 1] != b'/' && matches!(xml.as_bytes().get(o + open.len()), Some(b' ') | Some(b'>') | Some(b'\n')) {
                    depth += 1;
                }
                pos = he + 1;
            }
            _ => {
                depth -= 1;
                let ce = nc + xml[nc..].find('>')? + 1;
                if depth == 0 {
                    return Some((s, ce));
                }
                pos = ce;
            }
        }
    }
}

fn edit_xml(xml: &str, m: &Mut) -> Option<String> {
    match m {
        Mut::XmlNumber { nth, value } => {
            let nodes = number_nodes(xml);
            if nodes.is_empty() {
                return None;
            }
            let (s, e) = nodes[nth % nodes.len()];
            Some(format!("{}{}{}", &xml[..s], value, &xml[e..]))
        }
        Mut::XmlAttr { name, nth, value } => {
            let pat = format!(" {name}=\"");
            let i = nth_match(xml, &pat, *nth)? + pat.len();
            let e = i + xml[i..].find('"')?;
            Some(format!("{}{}{}", &xml[..i], value, &xml[e..]))
        }
        Mut::XmlRange { nth, min, max } => {
            let pat = " minimum=\"";
            let at = nth_match(xml, pat, *nth)?;
            let tag_start = xml[..at].rfind('<')?;
            let tag_end = at + xml[at..].find('>')?;
            let tag = &xml[tag_start..tag_end];
            let set = |tag: &str, name: &str, value: &str| -> String {
                let pat = format!(" {name}=\"");
                match tag.find(&pat) {
                    Some(i) => {
                        let v = i + pat.len();
                        let e = v + tag[v..].find('"').unwrap_or(0);
                        format!("{}{}{}", &tag[..v], value, &tag[e..])
                    }
                    None => {
                        let cut = if tag.ends_with('/') { tag.len() - 1 } else { tag.len() };
                        format!("{} {name}=\"{value}\"{}", &tag[..cut], &tag[cut..])
                    }
                }
            };
            let t = set(&set(tag, "minimum", min), "maximum", max);
            Some(format!("{}{}{}", &xml[..tag_start], t, &xml[tag_end..]))
        }
        Mut::XmlDropAttr { name, nth } => {
            let pat = format!(" {name}=\"");
            let s = nth_match(xml, &pat, *nth)?;
            let i = s + pat.len();
            let e = i + xml[i..].find('"')? + 1;
            Some(format!("{}{}", &xml[..s], &xml[e..]))
        }
        Mut::XmlDupAttr { name, nth } => {
            let pat = format!(" {name}=\"");
            let s = nth_match(xml, &pat, *nth)?;
            let i = s + pat.len();
            let e = i + xml[i..].find('"')? + 1;
            Some(format!("{}{}{}", &xml[..e], &xml[s..e], &xml[e..]))
        }
        Mut::XmlElem { tag, nth, what } => {
            let (s, e) = element_span(xml, tag, *nth)?;
            let el = &xml[s..e];
            match what {
                0 => Some(format!("{}{}", &xml[..s], &xml[e..])),
                1 => Some(format!("{}{}{}", &xml[..e], el, &xml[e..])),
                2 => {
                    // move behind the next sibling end (approximation: behind the next "</")
                    let rest = &xml[e..];
                    let j = rest.find("</").map(|j| j + e).unwrap_or(e);
                    Some(format!("{}{}{}{}", &xml[..s], &xml[e..j], el, &xml[j..]))
                }
                _ => {
                    let head_end = s + xml[s..].find('>')?;
                    if xml.as_bytes()[head_end - 1] == b'/' {
                        return None;
                    }
                    let close_start = s + el.rfind("</")?;
                    Some(format!("{}{}", &xml[..head_end + 1], &xml[close_start..]))
                }
            }
        }
        Mut::XmlInsert { at, nth, text } => match at {
            0 => Some(format!("{text}{xml}")),
            1 => {
                let i = xml.find("?>").map(|i| i + 2).unwrap_or(0);
                Some(format!("{}{}{}", &xml[..i], text, &xml[i..]))
            }
            2 => {
                let i = xml.rfind("</e57Root")?;
                Some(format!("{}{}{}", &xml[..i], text, &xml[i..]))
            }
            _ => {
                let i = nth_match(xml, "</prototype", *nth)?;
                Some(format!("{}{}{}", &xml[..i], text, &xml[i..]))
            }
        },
        Mut::XmlProtoZero { nth, keep_first } => {
            let (s, e) = element_span(xml, "prototype", *nth)?;
            let head_end = s + xml[s..].find('>')?;
            if xml.as_bytes()[head_end - 1] == b'/' {
                return None;
            }
            let close_start = s + xml[s..e].rfind("</")?;
            let inner = &xml[head_end + 1..close_start];
            let mut out = String::new();
            let mut first = true;
            let mut pos = 0;
            while let Some(i) = inner[pos..].find('<') {
                let at = pos + i;
                let rest = &inner[at + 1..];
                if rest.starts_with('/') || rest.starts_with('!') || rest.starts_with('?') {
                    pos = at + 1;
                    continue;
                }
                let name_end = rest.find(|c: char| c.is_whitespace() || c == '>' || c == '/').unwrap_or(rest.len());
                let name = &rest[..name_end];
                let el_end = {
                    let he = at + inner[at..].find('>')?;
                    if inner.as_bytes()[he - 1] == b'/' {
                        he + 1
                    } else {
                        let close = format!("</{name}");
                        let c = he + inner[he..].find(&close)?;
                        c + inner[c..].find('>')? + 1
                    }
                };
                if first && *keep_first {
                    out.push_str(&inner[at..el_end]);
                } else {
                    out.push_str(&format!("<{name} type=\"Integer\" minimum=\"7\" maximum=\"7\"/>"));
                }
                first = false;
                pos = el_end;
            }
            Some(format!("{}{}{}", &xml[..head_end + 1], out, &xml[close_start..]))
        }
        Mut::XmlWhole { xml: x } => Some(x.clone()),
        Mut::XmlDropAndSibling { tag, nth, sib, value } => {
            let (s, e) = element_span(xml, tag, *nth)?;
            // the parent's extent: from the last unmatched '<name' before s to its end tag
            let without = format!("{}{}", &xml[..s], &xml[e..]);
            // numeric leaves in a window around the dropped element (same parent with high probability)
            let lo = without[..s].rfind("Representation").or_else(|| without[..s].rfind("<vectorChild")).unwrap_or(s.saturating_sub(400));
            let hi = (s + 600).min(without.len());
            let hi = (hi..=without.len()).find(|i| without.is_char_boundary(*i)).unwrap_or(without.len());
            let lo = (0..=lo).rev().find(|i| without.is_char_boundary(*i)).unwrap_or(0);
            let nodes: Vec<(usize, usize)> = number_nodes(&without[lo..hi]).into_iter().map(|(a, b)| (a + lo, b + lo)).collect();
            if nodes.is_empty() {
                return Some(without);
            }
            let (a, b) = nodes[sib % nodes.len()];
            Some(format!("{}{}{}", &without[..a], value, &without[b..]))
        }
        Mut::XmlEntityBomb { unit, fan, refs } => {
            let unit_text = "A".repeat(*unit);
            let mut dtd = format!("<!DOCTYPE e57Root [<!ENTITY b \"{unit_text}\"><!ENTITY a \"");
            for _ in 0..*fan {
                dtd.push_str("&b;");
            }
            dtd.push_str("\">]>");
            let i = xml.find("?>").map(|i| i + 2).unwrap_or(0);
            let mut out = format!("{}{}{}", &xml[..i], dtd, &xml[i..]);
            let j = out.find("<![CDATA[")?;
            let mut r = String::new();
            for _ in 0..*refs {
                r.push_str("&a;");
            }
            out.insert_str(j, &r);
            Some(out)
        }
        Mut::XmlReplace { from, to, nth } => {
            let i = nth_match(xml, from, *nth)?;
            Some(format!("{}{}{}", &xml[..i], to, &xml[i + from.len()..]))
        }
        _ => None,
    }
}

fn put(logical: &mut [u8], at: u64, bytes: &[u8]) {
    let at = at as usize;
    if at + bytes.len() <= logical.len() {
        logical[at..at + bytes.len()].copy_from_slice(bytes);
    }
}

/// Apply a plan to a pristine image. Returns the corrupted physical image.
pub fn apply(pristine: &[u8], map: &Decoded, plan: &Plan) -> Vec<u8> {
    let mut logical: Vec<u8> = Vec::with_capacity(pristine.len());
    for pg in pristine.chunks(PAGE) {
        logical.extend_from_slice(&pg[..PAYLOAD.min(pg.len())]);
    }
    let mut xml = map.xml.clone();
    let mut xml_changed = false;
    for m in &plan.muts {
        match m {
            Mut::Header { field, value } => {
                let v = value.to_le_bytes();
                match field {
                    0 => put(&mut logical, value % 8, &[(value >> 8) as u8]),
                    1 => put(&mut logical, 8, &v[..4]),
                    2 => put(&mut logical, 12, &v[..4]),
                    3 => put(&mut logical, 16, &v),
                    4 => put(&mut logical, 24, &v),
                    5 => put(&mut logical, 32, &v),
                    _ => put(&mut logical, 40, &v),
                }
            }
            Mut::CvHeader { cv, field, value } => {
                if map.cvs.is_empty() {
                    continue;
                }
                let c = &map.cvs[cv % map.cvs.len()];
                let v = value.to_le_bytes();
                match field {
                    0 => put(&mut logical, c.logical, &v[..1]),
                    1 => put(&mut logical, c.logical + 1 + value % 7, &[0xA5]),
                    2 => put(&mut logical, c.logical + 8, &v),
                    3 => put(&mut logical, c.logical + 16, &v),
                    _ => put(&mut logical, c.logical + 24, &v),
                }
            }
            Mut::Packet { cv, packet, field, sub, value } => {
                if map.cvs.is_empty() {
                    continue;
                }
                let c = &map.cvs[cv % map.cvs.len()];
                if c.packets.is_empty() {
                    continue;
                }
                let p = &c.packets[packet % c.packets.len()];
                let v = value.to_le_bytes();
                match field {
                    0 => put(&mut logical, p.logical, &v[..1]),
                    1 => put(&mut logical, p.logical + 1, &v[..1]),
                    2 => put(&mut logical, p.logical + 2, &v[..2]),
                    3 => put(&mut logical, p.logical + 4, &v[..2]),
                    _ => {
                        let n = p.stream_lens.len().max(1);
                        put(&mut logical, p.logical + 6 + 2 * (sub % n) as u64, &v[..2]);
                    }
                }
            }
            Mut::BlobHeader { blob, field, value } => {
                if map.blobs.is_empty() {
                    continue;
                }
                let b = &map.blobs[blob % map.blobs.len()];
                let v = value.to_le_bytes();
                match field {
                    0 => put(&mut logical, b.logical, &v[..1]),
                    _ => put(&mut logical, b.logical + 8, &v),
                }
            }
            Mut::PayloadBits { cv, seed, n } => {
                if map.cvs.is_empty() {
                    continue;
                }
                let c = &map.cvs[cv % map.cvs.len()];
                let mut r = Rng::new(*seed);
                let len = c.section_length.max(1);
                for _ in 0..*n {
                    let off = (c.logical + r.below(len)) as usize;
                    if off < logical.len() {
                        logical[off] ^= 1 << r.below(8);
                    }
                }
            }
            Mut::Raw { logical: at, bytes } => put(&mut logical, *at, bytes),
            Mut::PacketBomb { cv, kind } => {
                if map.cvs.is_empty() {
                    continue;
                }
                let c = &map.cvs[cv % map.cvs.len()];
                if c.packets.is_empty() {
                    continue;
                }
                let n_streams = c.packets.iter().find(|p| p.kind == 1).map(|p| p.stream_lens.len()).unwrap_or(3).max(1);
                let unit: Vec<u8> = match kind {
                    0 => {
                        // data packet header + stream table, claimed total length = its own size rounded to 4
                        let mut u = vec![1u8, 0, 0, 0];
                        u.extend_from_slice(&(n_streams as u16).to_le_bytes());
                        u.extend_from_slice(&0xFFFFu16.to_le_bytes());
                        for _ in 1..n_streams {
                            u.extend_from_slice(&0u16.to_le_bytes());
                        }
                        while u.len() % 4 != 0 {
                            u.push(0);
                        }
                        let l = (u.len() - 1) as u16;
                        u[2..4].copy_from_slice(&l.to_le_bytes());
                        u
                    }
                    1 => vec![2, 0, 3, 0],
                    _ => {
                        let mut u = vec![0u8; 16];
                        u[2] = 15;
                        u
                    }
                };
                let from = c.packets[0].logical as usize;
                let to = ((c.logical + c.section_length) as usize).min(logical.len());
                let mut i = from;
                while i + unit.len() <= to {
                    logical[i..i + unit.len()].copy_from_slice(&unit);
                    i += unit.len();
                }
            }
            Mut::PacketCraft { cv, packet, kind, length_field } => {
                if map.cvs.is_empty() {
                    continue;
                }
                let c = &map.cvs[cv % map.cvs.len()];
                if c.packets.is_empty() {
                    continue;
                }
                let p = &c.packets[packet % c.packets.len()];
                let l = length_field.to_le_bytes();
                if *kind == 0 {
                    let mut h = [0u8; 16];
                    h[2] = l[0];
                    h[3] = l[1];
                    put(&mut logical, p.logical, &h);
                } else {
                    put(&mut logical, p.logical, &[2, 0, l[0], l[1]]);
                }
            }
            Mut::AnyBits { seed, n } => {
                let mut r = Rng::new(*seed);
                for _ in 0..*n {
                    let off = r.usize_below(logical.len().max(1));
                    if off < logical.len() {
                        logical[off] ^= 1 << r.below(8);
                    }
                }
            }
            xm => {
                if let Some(x) = edit_xml(&xml, xm) {
                    xml = x;
                    xml_changed = true;
                }
            }
        }
    }
    let mut header_patched = false;
    if xml_changed {
        // the edited XML goes to the end of the logical stream; the header follows unless a
        // header mutation set those fields on purpose
        while logical.len() % 4 != 0 {
            logical.push(0);
        }
        let at = logical.len() as u64;
        logical.extend_from_slice(xml.as_bytes());
        let touched_off = plan.muts.iter().any(|m| matches!(m, Mut::Header { field: 4, .. }));
        let touched_len = plan.muts.iter().any(|m| matches!(m, Mut::Header { field: 5, .. }));
        if !touched_off {
            put(&mut logical, 24, &to_phys(at).to_le_bytes());
        }
        if !touched_len {
            put(&mut logical, 32, &(xml.len() as u64).to_le_bytes());
        }
        header_patched = true;
    }
    let pages = logical.len().div_ceil(PAYLOAD);
    if header_patched && !plan.muts.iter().any(|m| matches!(m, Mut::Header { field: 3, .. })) {
        put(&mut logical, 16, &((pages * PAGE) as u64).to_le_bytes());
    }
    let mut image = if plan.sealed {
        page::page_up(&logical)
    } else {
        // keep the original checksums: pages whose payload changed now fail their CRC
        let mut img = page::page_up(&logical);
        for (i, pg) in img.chunks_mut(PAGE).enumerate() {
            let o = i * PAGE;
            if o + PAGE <= pristine.len() {
                pg[PAYLOAD..].copy_from_slice(&pristine[o + PAYLOAD..o + PAGE]);
            }
        }
        img
    };
    for m in &plan.media {
        match m {
            Media::CopyPage { from, to } => {
                let n = (image.len() / PAGE) as u64;
                if n > 0 {
                    let (f, t) = (((from % n) as usize) * PAGE, ((to % n) as usize) * PAGE);
                    let pg: Vec<u8> = image[f..f + PAGE].to_vec();
                    image[t..t + PAGE].copy_from_slice(&pg);
                }
            }
            Media::StalePage { page } => {
                let n = (image.len().min(pristine.len()) / PAGE) as u64;
                if n > 0 {
                    let o = ((page % n) as usize) * PAGE;
                    image[o..o + PAGE].copy_from_slice(&pristine[o..o + PAGE]);
                }
            }
            Media::TruncatePages { keep } => {
                let n = (image.len() / PAGE) as u64;
                image.truncate(((keep % (n + 1)) as usize) * PAGE);
            }
            Media::TruncateBytes { len } => {
                let l = (*len as usize) % (image.len() + 1);
                image.truncate(l);
            }
            Media::ExtendZeros { bytes } => image.resize(image.len() + (*bytes as usize).min(1 << 20), 0),
            Media::ExtendGarbage { bytes, seed } => {
                let n = (*bytes as usize).min(1 << 20);
                let mut g = vec![0u8; n];
                Rng::new(*seed).fill(&mut g);
                image.extend_from_slice(&g);
            }
        }
    }
    image
}

pub const NUM_TEXTS: [&str; 28] = [
    "NaN", "nan", "inf", "-inf", "Infinity", "1e999", "-1e999", "-0", "0", "-1", "9223372036854775807", "-9223372036854775808", "9223372036854775808",
    "18446744073709551615", "18446744073709551616", "", " ", "abc", "1.2.3", "0x10", " 5", "+5", "1e-400", "4294967295", "4294967296", "2147483648", "1e308", "1.7976931348623157e309",
];

/// Text for a numeric element or attribute: the menu of extremes, or a long unparseable string
/// (digits, letters or blanks) with a multi-byte character at a drawn byte position - such text
/// ends up in error messages, buffers and length computations.
pub fn num_text(r: &mut Rng) -> String {
    if r.chance(6, 7) {
        return r.pick(&NUM_TEXTS).to_string();
    }
    let unit = *r.pick(&["9", "x", "0", " ", "1e", "-"]);
    let lead = if r.chance(1, 2) { 40 + r.usize_below(30) } else { r.usize_below(300) };
    let mut t = String::new();
    while t.len() < lead {
        t.push_str(unit);
    }
    t.truncate(lead);
    if r.chance(3, 4) {
        t.push(*r.pick(&['\u{e4}', '\u{20ac}', '\u{1d11e}', '\u{feff}']));
    }
    let tail = r.usize_below(24);
    for _ in 0..tail {
        t.push(*r.pick(&['7', '.', 'e', '\u{e4}', '\u{20ac}', 'q']));
    }
    t
}

fn draw_u64(r: &mut Rng, file_len: u64, anchors: &[u64]) -> u64 {
    match r.below(14) {
        0 => 0,
        1 => 1,
        2 => u64::MAX,
        3 => 1 << 63,
        4 => 1 << 32,
        5 => file_len,
        6 => file_len.wrapping_sub(1),
        7 => file_len + 1,
        8 => r.below(file_len.max(1)),
        9 => (r.below(file_len / 1024 + 1)) * 1024 + 1020 + r.below(4), // inside a checksum
        10 => {
            if anchors.is_empty() {
                48
            } else {
                *r.pick(anchors)
            }
        }
        11 => {
            if anchors.is_empty() {
                49
            } else {
                r.pick(anchors).wrapping_add(r.below(9)).wrapping_sub(4)
            }
        }
        12 => u64::MAX - r.below(64),
        _ => r.next_u64(),
    }
}

/// Draw a corruption plan for a pristine file.
pub fn draw_plan(r: &mut Rng, pristine: &[u8], map: &Decoded, size_targeted: bool) -> Plan {
    let file_len = pristine.len() as u64;
    let mut anchors: Vec<u64> = map.cvs.iter().map(|c| c.phys_offset).collect();
    anchors.extend(map.blobs.iter().map(|b| b.phys_offset));
    anchors.push(map.header.xml_offset);
    for c in &map.cvs {
        for p in c.packets.iter().take(4) {
            anchors.push(to_phys(p.logical));
        }
    }
    let n = 1 + r.usize_below(3);
    let mut muts = Vec::new();
    for _ in 0..n {
        let kind = if size_targeted { *r.pick(&[20u64, 21, 22, 23, 24, 25, 26, 26]) } else if r.chance(1, 25) { 21 } else { r.below(20) };
        let m = match kind {
            0 if r.chance(1, 3) => {
                // two header fields that lie consistently: a huge XML length together with a
                // stated file length that covers it (a check of one field against the other passes)
                let l = *r.pick(&[1u64 << 30, 1 << 31, 1 << 32, 1 << 33, 1 << 40, 1 << 62, file_len.saturating_mul(4096)]);
                let total = *r.pick(&[l.saturating_mul(2), l.saturating_add(file_len), 1 << 63, u64::MAX - 1023]);
                muts.push(Mut::Header { field: 3, value: total });
                Mut::Header { field: 5, value: l }
            }
            0 => Mut::Header { field: r.below(7) as u8, value: draw_u64(r, file_len, &anchors) },
            1 | 2 => Mut::XmlNumber { nth: r.usize_below(400), value: num_text(r) },
            3 => Mut::XmlAttr {
                name: r.pick(&["fileOffset", "recordCount", "length"]).to_string(),
                nth: r.usize_below(16),
                value: match r.below(3) {
                    0 => draw_u64(r, file_len, &anchors).to_string(),
                    1 => num_text(r),
                    _ => r.below(file_len * 2 + 2).to_string(),
                },
            },
            4 if r.chance(1, 2) => {
                // both limits of one record: narrow ranges at the ends of the integer domain
                let width = *r.pick(&[1i128, 2, 127, 128, 200, 255, 256, 65535, 65536, (1 << 31) - 1, 1 << 32]);
                let (lo, hi): (i128, i128) = match r.below(4) {
                    0 => (i64::MAX as i128 - width, i64::MAX as i128),
                    1 => (i64::MIN as i128, i64::MIN as i128 + width),
                    2 => (-1, i64::MAX as i128),
                    _ => (i64::MIN as i128, 0),
                };
                Mut::XmlRange { nth: r.usize_below(64), min: lo.to_string(), max: hi.to_string() }
            }
            4 => Mut::XmlAttr {
                name: r.pick(&["minimum", "maximum", "scale", "offset"]).to_string(),
                nth: r.usize_below(64),
                value: num_text(r),
            },
            5 => Mut::XmlAttr {
                name: "type".into(),
                nth: r.usize_below(300),
                value: r.pick(&["Integer", "Float", "ScaledInteger", "String", "Structure", "Vector", "Blob", "CompressedVector", "", "Bogus"]).to_string(),
            },
            6 => Mut::XmlAttr { name: "precision".into(), nth: r.usize_below(32), value: r.pick(&["single", "double", "half", ""]).to_string() },
            7 => Mut::XmlDropAttr { name: r.pick(&["type", "fileOffset", "recordCount", "length", "minimum", "maximum", "scale", "precision", "xmlns"]).to_string(), nth: r.usize_below(64) },
            8 => Mut::XmlDupAttr { name: r.pick(&["type", "fileOffset", "minimum"]).to_string(), nth: r.usize_below(64) },
            9 | 10 => Mut::XmlElem {
                tag: r
                    .pick(&[
                        "prototype", "points", "vectorChild", "data3D", "images2D", "guid", "pose", "rotation", "translation", "cartesianX", "cartesianInvalidState", "sphericalRange",
                        "colorRed", "intensity", "intensityLimits", "colorLimits", "intensityMinimum", "colorRedMaximum", "cartesianBounds", "indexBounds", "rowIndex",
                        "visualReferenceRepresentation", "pinholeRepresentation", "sphericalRepresentation", "cylindricalRepresentation", "jpegImage", "pngImage", "imageMask",
                        "imageWidth", "imageHeight", "pixelWidth", "pixelHeight", "focalLength", "principalPointX", "principalPointY", "radius", "dateTimeValue", "isAtomicClockReferenced", "formatName", "versionMajor", "e57Root", "acquisitionStart", "w", "x",
                    ])
                    .to_string(),
                nth: r.usize_below(32),
                what: r.below(4) as u8,
            },
            11 => Mut::XmlInsert {
                at: r.below(4) as u8,
                nth: r.usize_below(8),
                text: r
                    .pick(&[
                        "<!DOCTYPE e57Root [<!ENTITY a \"aaaaaaaaaa\"><!ENTITY b \"&a;&a;&a;&a;&a;&a;&a;&a;&a;&a;\"><!ENTITY c \"&b;&b;&b;&b;&b;&b;&b;&b;&b;&b;\">]>",
                        "<!DOCTYPE x SYSTEM \"file:///etc/passwd\">",
                        "<cartesianX type=\"String\"/>",
                        "<cartesianX type=\"Integer\" minimum=\"5\" maximum=\"4\"/>",
                        "<ext:foo type=\"Float\"/>",
                        "<a><a><a><a><a><a><a><a><a><a><a><a><a><a><a><a></a></a></a></a></a></a></a></a></a></a></a></a></a></a></a></a>",
                        "<colorRed type=\"Float\" minimum=\"NaN\" maximum=\"NaN\"/>",
                        "<intensity type=\"ScaledInteger\" minimum=\"0\" maximum=\"0\" scale=\"NaN\"/>",
                        "\u{0}",
                        "<!-- unterminated",
                        "&undefined;",
                        "<![CDATA[",
                    ])
                    .to_string(),
            },
            12 => Mut::XmlReplace {
                from: r.pick(&["<![CDATA[", "]]>", "</", "\"", ">", "e57Root", "type=", "http://www.astm.org/COMMIT/E57/2010-e57-v1.0", "Structure", "CompressedVector"]).to_string(),
                to: r.pick(&["", "<", "&", "]]>", "\u{feff}", "xx"]).to_string(),
                nth: r.usize_below(200),
            },
            13 | 14 => Mut::CvHeader { cv: r.usize_below(4), field: r.below(5) as u8, value: draw_u64(r, file_len, &anchors) },
            15 | 16 => Mut::Packet {
                cv: r.usize_below(4),
                packet: if r.chance(1, 2) { 0 } else { r.usize_below(64) },
                field: r.below(5) as u8,
                sub: r.usize_below(40),
                value: *r.pick(&[0u64, 1, 2, 3, 4, 5, 6, 7, 0xFF, 0xFFFF, 0xFFFE, 0xFFFC, 0x8000, 15, 16, 19]),
            },
            17 => Mut::BlobHeader { blob: r.usize_below(8), field: r.below(2) as u8, value: draw_u64(r, file_len, &anchors) },
            18 => Mut::PayloadBits { cv: r.usize_below(4), seed: r.next_u64(), n: 1 + r.usize_below(16) },
            19 if r.chance(1, 3) => match r.below(3) {
                0 => Mut::XmlDropAndSibling {
                    tag: r.pick(&["pixelWidth", "pixelHeight", "imageWidth", "imageHeight", "focalLength", "radius", "principalPointY", "scale", "offset", "isAtomicClockReferenced", "dateTimeValue", "w", "x", "translation", "rotation", "intensityMaximum", "colorRedMinimum", "xMaximum", "rowMaximum"]).to_string(),
                    nth: r.usize_below(8),
                    sib: r.usize_below(12),
                    value: num_text(r),
                },
                1 => Mut::PacketBomb { cv: r.usize_below(4), kind: r.below(3) as u8 },
                _ => Mut::XmlEntityBomb { unit: *r.pick(&[64usize, 4096, 16384]), fan: *r.pick(&[10usize, 250]), refs: *r.pick(&[1usize, 4, 8]) },
            },
            19 => {
                if r.chance(1, 2) {
                    Mut::AnyBits { seed: r.next_u64(), n: 1 + r.usize_below(8) }
                } else {
                    Mut::PacketCraft {
                        cv: r.usize_below(4),
                        packet: if r.chance(2, 3) { 0 } else { r.usize_below(64) },
                        kind: if r.chance(1, 2) { 0 } else { 2 },
                        length_field: *r.pick(&[3u16, 7, 11, 15, 19, 0, 1, 2, 4, 0xFFFF, 0xFFFB, 0xFFFC, 31, 1023]),
                    }
                }
            }
            // size-targeted plans (C09)
            20 => Mut::XmlAttr { name: "recordCount".into(), nth: r.usize_below(4), value: r.pick(&["18446744073709551615", "9223372036854775807", "4294967296", "1000000000000"]).to_string() },
            21 => Mut::XmlProtoZero { nth: r.usize_below(4), keep_first: r.chance(1, 3) },
            22 => Mut::Packet { cv: r.usize_below(4), packet: r.usize_below(4), field: 4, sub: r.usize_below(40), value: 0xFFFF },
            23 => Mut::Header { field: 5, value: *r.pick(&[10 * 1024 * 1024, 10 * 1024 * 1024 + 1, 10 * 1024 * 1024 - 1, u64::MAX, 1 << 40]) },
            24 => {
                // page sizes: extremes, and divisors of the file size that are not multiples of four
                let pages = (file_len / 1024).max(1);
                let mut cands: Vec<u64> = vec![1024 * 1024, 1024 * 1024 + 1, 512 * 1024, 5, 4, 3, 0, u64::MAX, 1 << 33, 2048, 512];
                for d in 1..=pages.min(64) {
                    if pages % d == 0 {
                        for m in [1u64, 2, 1024, 512, 256] {
                            if d * m > 4 && file_len % (d * m) == 0 {
                                cands.push(d * m);
                            }
                        }
                    }
                }
                Mut::Header { field: 6, value: *r.pick(&cands) }
            }
            26 => Mut::PacketBomb { cv: r.usize_below(4), kind: if r.chance(2, 3) { 0 } else { 1 + r.below(2) as u8 } },
            _ => Mut::XmlAttr { name: "length".into(), nth: r.usize_below(8), value: r.pick(&["18446744073709551615", "18446744073709551600", "9223372036854775807"]).to_string() },
        };
        muts.push(m);
    }
    let sealed = r.chance(3, 4);
    let mut media = Vec::new();
    if r.chance(1, 5) {
        let pages = (file_len / 1024).max(1);
        media.push(match r.below(6) {
            0 => Media::CopyPage { from: r.below(pages), to: r.below(pages) },
            1 => Media::StalePage { page: r.below(pages) },
            2 => Media::TruncatePages { keep: r.below(pages + 1) },
            3 => Media::TruncateBytes { len: r.below(file_len + 1) },
            4 => Media::ExtendZeros { bytes: *r.pick(&[1u64, 3, 1023, 1024, 1025, 4096]) },
            _ => Media::ExtendGarbage { bytes: *r.pick(&[1u64, 1024, 2048, 5000]), seed: r.next_u64() },
        });
    }
    Plan { muts, sealed, media }
}

/// Map of a pristine image (refcodec's decoder); None if it cannot be decoded (harness error).
pub fn map_of(pristine: &[u8]) -> Option<Decoded> {
    decode::analyse(pristine).0
}

#[allow(dead_code)]
pub fn logical_of(phys: u64) -> Option<u64> {
    to_logical(phys)
}
