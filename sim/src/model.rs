//! Plain-data model of E57 content: what a scene contains and what a reader reports.
//! Shared vocabulary of the scene model, the e57 adapters and refcodec. Floats are kept as bit
//! patterns so that comparisons are bit-exact and cases serialise losslessly.

use crate::rng::{Digest, Rng};
use serde::{Deserialize, Serialize};

#[derive(Clone, Copy, PartialEq, Eq, Hash, Serialize, Deserialize)]
pub struct B64(pub u64);
#[derive(Clone, Copy, PartialEq, Eq, Hash, Serialize, Deserialize)]
pub struct B32(pub u32);

impl B64 {
    pub fn f(self) -> f64 {
        f64::from_bits(self.0)
    }
    pub fn of(v: f64) -> Self {
        B64(v.to_bits())
    }
}
impl B32 {
    pub fn f(self) -> f32 {
        f32::from_bits(self.0)
    }
    pub fn of(v: f32) -> Self {
        B32(v.to_bits())
    }
}
impl std::fmt::Debug for B64 {
    fn fmt(&self, f: &mut std::fmt::Formatter<'_>) -> std::fmt::Result {
        write!(f, "{:?}", self.f())
    }
}
impl std::fmt::Debug for B32 {
    fn fmt(&self, f: &mut std::fmt::Formatter<'_>) -> std::fmt::Result {
        write!(f, "{:?}f", self.f())
    }
}

pub const STD_NAMES: [&str; 20] = [
    "cartesianX",
    "cartesianY",
    "cartesianZ",
    "cartesianInvalidState",
    "sphericalRange",
    "sphericalAzimuth",
    "sphericalElevation",
    "sphericalInvalidState",
    "intensity",
    "isIntensityInvalid",
    "colorRed",
    "colorGreen",
    "colorBlue",
    "isColorInvalid",
    "rowIndex",
    "columnIndex",
    "returnCount",
    "returnIndex",
    "timeStamp",
    "isTimeStampInvalid",
];

pub mod std_name {
    pub const CX: u8 = 0;
    pub const CY: u8 = 1;
    pub const CZ: u8 = 2;
    pub const CINV: u8 = 3;
    pub const SR: u8 = 4;
    pub const SA: u8 = 5;
    pub const SE: u8 = 6;
    pub const SINV: u8 = 7;
    pub const INT: u8 = 8;
    pub const IINV: u8 = 9;
    pub const RED: u8 = 10;
    pub const GREEN: u8 = 11;
    pub const BLUE: u8 = 12;
    pub const COLINV: u8 = 13;
    pub const ROW: u8 = 14;
    pub const COL: u8 = 15;
    pub const RCOUNT: u8 = 16;
    pub const RINDEX: u8 = 17;
    pub const TIME: u8 = 18;
    pub const TINV: u8 = 19;
}

#[derive(Clone, Debug, PartialEq, Eq, Hash, Serialize, Deserialize)]
pub enum Name {
    /// index into STD_NAMES
    Std(u8),
    Ext { ns: String, name: String },
}

impl Name {
    pub fn tag(&self) -> String {
        match self {
            Name::Std(i) => STD_NAMES[*i as usize].to_string(),
            Name::Ext { ns, name } => {
                if ns.is_empty() {
                    name.clone()
                } else {
                    format!("{ns}:{name}")
                }
            }
        }
    }
}

#[derive(Clone, Debug, PartialEq, Serialize, Deserialize)]
pub enum DType {
    Single { min: Option<B32>, max: Option<B32> },
    Double { min: Option<B64>, max: Option<B64> },
    Int { min: i64, max: i64 },
    Scaled { min: i64, max: i64, scale: B64, offset: B64 },
}

pub fn int_bits(min: i64, max: i64) -> u32 {
    let range = (max as i128 - min as i128) as u128;
    if max as i128 <= min as i128 {
        0
    } else {
        128 - range.leading_zeros()
    }
}

impl DType {
    pub fn bits(&self) -> u32 {
        match self {
            DType::Single { .. } => 32,
            DType::Double { .. } => 64,
            DType::Int { min, max } | DType::Scaled { min, max, .. } => int_bits(*min, *max),
        }
    }
    pub fn kind(&self) -> u8 {
        match self {
            DType::Single { .. } => 0,
            DType::Double { .. } => 1,
            DType::Int { .. } => 2,
            DType::Scaled { .. } => 3,
        }
    }
}

#[derive(Clone, Debug, PartialEq, Serialize, Deserialize)]
pub struct Rec {
    pub name: Name,
    pub dt: DType,
}

#[derive(Clone, Copy, Debug, PartialEq, Eq, Hash, Serialize, Deserialize)]
pub enum Val {
    S(u32),
    D(u64),
    I(i64),
    SI(i64),
}

impl Val {
    pub fn kind(&self) -> u8 {
        match self {
            Val::S(_) => 0,
            Val::D(_) => 1,
            Val::I(_) => 2,
            Val::SI(_) => 3,
        }
    }
    pub fn fits(&self, dt: &DType) -> bool {
        match (self, dt) {
            (Val::S(_), DType::Single { .. }) => true,
            (Val::D(_), DType::Double { .. }) => true,
            (Val::I(v), DType::Int { min, max }) => v >= min && v <= max,
            (Val::SI(v), DType::Scaled { min, max, .. }) => v >= min && v <= max,
            _ => false,
        }
    }
    /// real value of a raw value (scaled integers after scale and offset)
    pub fn real(&self, dt: &DType) -> f64 {
        match self {
            Val::S(b) => f32::from_bits(*b) as f64,
            Val::D(b) => f64::from_bits(*b),
            Val::I(v) => *v as f64,
            Val::SI(v) => {
                if let DType::Scaled { scale, offset, .. } = dt {
                    *v as f64 * scale.f() + offset.f()
                } else {
                    *v as f64
                }
            }
        }
    }
}

pub type Point = Vec<Val>;

#[derive(Clone, Debug, PartialEq, Serialize, Deserialize)]
pub struct DT {
    pub gps: B64,
    pub atomic: bool,
}

#[derive(Clone, Debug, PartialEq, Serialize, Deserialize)]
pub struct Xform {
    /// w, x, y, z
    pub rot: [B64; 4],
    pub tr: [B64; 3],
}

#[derive(Clone, Copy, Debug, PartialEq, Serialize, Deserialize)]
pub enum Lim {
    I(i64),
    SI(i64),
    S(B32),
    D(B64),
}

#[derive(Clone, Debug, PartialEq, Serialize, Deserialize)]
pub struct ILim {
    pub min: Option<Lim>,
    pub max: Option<Lim>,
}

/// red min/max, green min/max, blue min/max
#[derive(Clone, Debug, PartialEq, Serialize, Deserialize)]
pub struct CLim(pub [Option<Lim>; 6]);

impl ILim {
    pub fn complete(&self) -> bool {
        self.min.is_some() && self.max.is_some()
    }
}
impl CLim {
    pub fn complete(&self) -> bool {
        self.0.iter().all(|l| l.is_some())
    }
}

/// Everything a caller can set on a point cloud (plus what the writer derives), as stored in a file.
#[derive(Clone, Debug, PartialEq, Serialize, Deserialize, Default)]
pub struct PcMeta {
    pub name: Option<String>,
    pub description: Option<String>,
    pub original_guids: Option<Vec<String>>,
    pub transform: Option<Xform>,
    pub acq_start: Option<DT>,
    pub acq_end: Option<DT>,
    pub sensor_vendor: Option<String>,
    pub sensor_model: Option<String>,
    pub sensor_serial: Option<String>,
    pub sensor_hw: Option<String>,
    pub sensor_sw: Option<String>,
    pub sensor_fw: Option<String>,
    pub temperature: Option<B64>,
    pub humidity: Option<B64>,
    pub pressure: Option<B64>,
    pub intensity_limits: Option<ILim>,
    pub color_limits: Option<CLim>,
}

#[derive(Clone, Debug, PartialEq, Serialize, Deserialize, Default)]
pub struct Bounds {
    /// xmin xmax ymin ymax zmin zmax
    pub cartesian: Option<[Option<B64>; 6]>,
    /// rmin rmax elmin elmax azstart azend
    pub spherical: Option<[Option<B64>; 6]>,
    /// rowmin rowmax colmin colmax retmin retmax
    pub index: Option<[Option<i64>; 6]>,
}

#[derive(Clone, Copy, Debug, PartialEq, Eq, Hash, Serialize, Deserialize)]
pub enum RepKind {
    Visual,
    Pinhole,
    Spherical,
    Cylindrical,
}

#[derive(Clone, Copy, Debug, PartialEq, Eq, Hash, Serialize, Deserialize)]
pub enum Format {
    Png,
    Jpeg,
}

/// Representation properties: width, height and the kind-specific floats in API order.
/// Pinhole: focal, pixel_w, pixel_h, principal_x, principal_y. Spherical: pixel_w, pixel_h.
/// Cylindrical: radius, principal_y, pixel_w, pixel_h. Visual: none.
#[derive(Clone, Debug, PartialEq, Serialize, Deserialize)]
pub struct RepProps {
    pub width: u32,
    pub height: u32,
    pub floats: Vec<B64>,
}

#[derive(Clone, Debug, PartialEq, Serialize, Deserialize, Default)]
pub struct ImgMeta {
    pub name: Option<String>,
    pub description: Option<String>,
    pub pointcloud_guid: Option<String>,
    pub transform: Option<Xform>,
    pub acquisition: Option<DT>,
    pub sensor_vendor: Option<String>,
    pub sensor_model: Option<String>,
    pub sensor_serial: Option<String>,
}

/// Compact byte-string description: content is a pure function of (len, seed, pat).
#[derive(Clone, Debug, PartialEq, Eq, Hash, Serialize, Deserialize)]
pub struct Bytes {
    pub len: usize,
    pub seed: u64,
    /// 0 = pseudo-random, 1 = zeros, 2 = 0xFF, 3 = counter
    pub pat: u8,
}

impl Bytes {
    pub fn make(&self) -> Vec<u8> {
        match self.pat {
            1 => vec![0u8; self.len],
            2 => vec![0xFFu8; self.len],
            3 => (0..self.len).map(|i| (i as u8).wrapping_add(self.seed as u8)).collect(),
            // explicit payloads of copy programs live in a per-thread side table (C19)
            200 => crate::props::c19::payload(self.seed),
            _ => {
                let mut r = Rng::new(self.seed);
                let mut v = vec![0u8; self.len];
                r.fill(&mut v);
                v
            }
        }
    }
    pub fn draw(rng: &mut Rng, len: usize) -> Bytes {
        Bytes {
            len,
            seed: rng.next_u64(),
            pat: *rng.pick(&[0u8, 0, 0, 0, 0, 0, 1, 2, 3]),
        }
    }
}

// ---------------------------------------------------------------------------------------------
// What a reader (the crate's or refcodec's) reports about a file.

#[derive(Clone, Debug, PartialEq)]
pub struct PcRead {
    pub guid: Option<String>,
    pub proto: Vec<Rec>,
    pub records: u64,
    pub meta: PcMeta,
    pub bounds: Bounds,
    /// Ok(points) or Err(message); filled by whoever iterates
    pub points: Result<Vec<Point>, String>,
}

#[derive(Clone, Debug, PartialEq)]
pub struct RepRead {
    pub kind: RepKind,
    pub format: Format,
    pub props: RepProps,
    pub data_len: u64,
    pub data: Result<Vec<u8>, String>,
    pub mask_len: Option<u64>,
    pub mask: Option<Result<Vec<u8>, String>>,
}

#[derive(Clone, Debug, PartialEq)]
pub struct ImgRead {
    pub guid: Option<String>,
    pub meta: ImgMeta,
    pub visual: Option<RepRead>,
    pub projection: Option<RepRead>,
}

#[derive(Clone, Debug, PartialEq, Default)]
pub struct FileRead {
    pub guid: String,
    pub coord_meta: Option<String>,
    pub creation: Option<DT>,
    /// (prefix, url) in document order
    pub extensions: Vec<(String, String)>,
    pub library_version: Option<String>,
    pub pcs: Vec<PcRead>,
    pub images: Vec<ImgRead>,
    pub xml: String,
}

pub fn digest_points(d: &mut Digest, pts: &[Point]) {
    for p in pts {
        for v in p {
            match v {
                Val::S(b) => d.u64(*b as u64),
                Val::D(b) => d.u64(*b),
                Val::I(i) | Val::SI(i) => d.u64(*i as u64),
            };
        }
    }
}

/// First difference between two point lists, or None.
pub fn diff_points(got: &[Point], want: &[Point]) -> Option<String> {
    if got.len() != want.len() {
        return Some(format!("{} points instead of {}", got.len(), want.len()));
    }
    for (i, (g, w)) in got.iter().zip(want.iter()).enumerate() {
        if g != w {
            return Some(format!("point {i}: got {g:?}, expected {w:?}"));
        }
    }
    None
}

pub fn diff_opt<T: PartialEq + std::fmt::Debug>(what: &str, got: &T, want: &T) -> Option<String> {
    if got != want {
        Some(format!("{what}: got {got:?}, expected {want:?}"))
    } else {
        None
    }
}

pub fn diff_pc_meta(got: &PcMeta, want: &PcMeta) -> Option<String> {
    diff_opt("name", &got.name, &want.name)
        .or_else(|| diff_opt("description", &got.description, &want.description))
        .or_else(|| diff_opt("originalGuids", &got.original_guids, &want.original_guids))
        .or_else(|| diff_opt("pose", &got.transform, &want.transform))
        .or_else(|| diff_opt("acquisitionStart", &got.acq_start, &want.acq_start))
        .or_else(|| diff_opt("acquisitionEnd", &got.acq_end, &want.acq_end))
        .or_else(|| diff_opt("sensorVendor", &got.sensor_vendor, &want.sensor_vendor))
        .or_else(|| diff_opt("sensorModel", &got.sensor_model, &want.sensor_model))
        .or_else(|| diff_opt("sensorSerialNumber", &got.sensor_serial, &want.sensor_serial))
        .or_else(|| diff_opt("sensorHardwareVersion", &got.sensor_hw, &want.sensor_hw))
        .or_else(|| diff_opt("sensorSoftwareVersion", &got.sensor_sw, &want.sensor_sw))
        .or_else(|| diff_opt("sensorFirmwareVersion", &got.sensor_fw, &want.sensor_fw))
        .or_else(|| diff_opt("temperature", &got.temperature, &want.temperature))
        .or_else(|| diff_opt("relativeHumidity", &got.humidity, &want.humidity))
        .or_else(|| diff_opt("atmosphericPressure", &got.pressure, &want.pressure))
        .or_else(|| diff_opt("intensityLimits", &got.intensity_limits, &want.intensity_limits))
        .or_else(|| diff_opt("colorLimits", &got.color_limits, &want.color_limits))
}

pub fn diff_img_meta(got: &ImgMeta, want: &ImgMeta) -> Option<String> {
    diff_opt("name", &got.name, &want.name)
        .or_else(|| diff_opt("description", &got.description, &want.description))
        .or_else(|| diff_opt("associatedData3DGuid", &got.pointcloud_guid, &want.pointcloud_guid))
        .or_else(|| diff_opt("pose", &got.transform, &want.transform))
        .or_else(|| diff_opt("acquisitionDateTime", &got.acquisition, &want.acquisition))
        .or_else(|| diff_opt("sensorVendor", &got.sensor_vendor, &want.sensor_vendor))
        .or_else(|| diff_opt("sensorModel", &got.sensor_model, &want.sensor_model))
        .or_else(|| diff_opt("sensorSerialNumber", &got.sensor_serial, &want.sensor_serial))
}
